import Girc.Model.Lifecycle
import Girc.Proofs.LifeInv
import Girc.Proofs.LifeTerm
import Girc.Proofs.LifeCause
/-
  C07 proofs: invariants of the lifecycle model over ALL reachable states (all interleavings of the
  four loops, main, user goroutines and the peer), result classification, lifecycle events, and
  bounded termination once a terminating cause has occurred.
-/
namespace Girc.Proofs.Life
open Girc Girc.Model.Life

/-- rx is a FIFO with a single consumer: what was received is what was delivered plus what is queued. -/
theorem fifo {s : LState} (h : Reach s) : s.received = s.delivered ++ s.rx :=
  (good_of_reach h).fifo

/-- Nothing is delivered that the peer did not send on THIS connection (no stale events). -/
theorem no_stale {s : LState} (h : Reach s) : ∀ e ∈ s.delivered, e ∈ s.sent := by
  have g := good_of_reach h
  intro e he
  exact g.recv_sent e (by rw [g.fifo]; exact List.mem_append_left _ he)

/-- execLoop's result is the first ERROR it delivered (normal path or flush path). -/
theorem exec_result {s : LState} (h : Reach s) :
    (s.exec = .running → firstError s.delivered = none) ∧
    (∀ r, s.exec = .exited r → firstError s.delivered = r) :=
  ⟨(good_of_reach h).exec_run, (good_of_reach h).exec_ex⟩

/-- Where the first delivered ERROR sits: everything received before it was delivered before it. -/
theorem firstError_split (l : List Ev) (t : Bytes) (h : firstError l = some (.errEvent t)) :
    ∃ pre e post, l = pre ++ [e] ++ post ∧ e.isError = true ∧ e.text = t ∧ ∀ x ∈ pre, x.isError = false :=
  firstError_split' l t h

theorem firstError_kind (l : List Ev) (e : Err) (h : firstError l = some e) : ∃ t, e = .errEvent t :=
  firstError_kind' l e h

/-- What `Connect` returns. -/
theorem result_classification {s : LState} (h : Reach s) (res : Option Err) (hr : s.main = .returned res) :
    -- nil exactly when the close was requested before `group.Wait()` returned
    (res = none ↔ s.reqAtWait = true) ∧
    (s.reqAtWait = true → s.closeRequested = true) ∧
    -- otherwise a delivered ERROR is what is reported (the first one, with its text)
    (s.reqAtWait = false → ∀ e, firstError s.delivered = some e → res = some e) ∧
    (∀ t, res = some (.errEvent t) → firstError s.delivered = some (.errEvent t)) ∧
    -- an I/O error only after the peer closed, and only if no ERROR had been handled
    (res = some .io → s.peerClosed = true ∧ firstError s.delivered = none) := by
  have g := good_of_reach h
  have hres : Res s res := g.res_ok res (by rw [hr]; rfl)
  exact ⟨hres.nil_iff, g.req_close, hres.err_first, hres.ev_first, hres.io_peer⟩

/-- A requested close is never reported as a failure: if Close() was called (or a QUIT written) while
    the loops were still being waited for, Connect returns nil. -/
theorem close_returns_nil {s : LState} (h : Reach s) (hw : s.main = .waiting) (hc : s.closeRequested = true) :
    s.parentCancelled = true := by
  have _ := hw  -- not needed: `closeRequested → parentCancelled` holds in every reachable state
  exact (good_of_reach h).close_par hc

/-- CLOSED / DISCONNECTED. -/
theorem lifecycle_events {s : LState} (h : Reach s) :
    (∀ res, s.main = .returned res → s.emitted = if res = none then [.closed, .disconnected] else [.disconnected]) ∧
    (s.main = .waiting → s.emitted = []) := by
  have g := good_of_reach h
  refine ⟨?_, ?_⟩
  · intro res hr
    rw [g.emitted_eq, hr]; rfl
  · intro hw
    rw [g.emitted_eq, hw]; rfl

/-- When Connect returns: socket closed, `conn == nil` (so IsConnected() is false), every loop has exited. -/
theorem at_return {s : LState} (h : Reach s) (res : Option Err) (hr : s.main = .returned res) :
    s.sockClosed = true ∧ s.connNil = true ∧ s.exec.done = true ∧ s.read.done = true ∧ s.send.done = true ∧
    s.ping.done = true := by
  have g := good_of_reach h
  have hd := g.main_done (by rw [hr]; exact fun h => MainPc.noConfusion h)
  refine ⟨?_, ?_, hd⟩
  · rw [g.sock_eq, hr]; rfl
  · rw [g.conn_eq, hr]; rfl

/-- The loops are all gone before the socket is closed (no use after close). -/
theorem sock_closed_after_loops {s : LState} (h : Reach s) (hc : s.sockClosed = true) :
    s.exec.done = true ∧ s.read.done = true ∧ s.send.done = true ∧ s.ping.done = true := by
  have g := good_of_reach h
  apply g.main_done
  intro hw
  rw [g.sock_eq, hw] at hc
  cases hc

/-! ### termination -/

/-- Every terminating cause cancels the group. -/
theorem causes_cancel (s s' : LState) :
    (step s .userClose = some s' → s'.groupCancelled = true) ∧
    (step s .readEOF = some s' → s'.groupCancelled = true) ∧
    (step s .readParseErr = some s' → s'.groupCancelled = true) ∧
    (step s .pingTimeout = some s' → s'.groupCancelled = true) ∧
    (step s .execTake = some s' → (∃ e rest, s.rx = e :: rest ∧ e.isError = true) → s'.groupCancelled = true) ∧
    (step s .sendTake = some s' → (∃ rest, s.tx = .quit :: rest) → s'.groupCancelled = true) ∧
    (step s .sendFail = some s' → s'.groupCancelled = true) :=
  causes_cancel' s s'

theorem cancelled_stays (s s' : LState) (a : Act) (hs : step s a = some s') (hc : s.groupCancelled = true) :
    s'.groupCancelled = true :=
  cancelled_stays' s s' a hs hc

/-- Once cancelled, every library step strictly decreases the measure … -/
theorem lib_decreases (s s' : LState) (a : Act) (hc : s.groupCancelled = true) (ha : a.isLib = true)
    (hs : step s a = some s') : measure s' < measure s :=
  lib_decreases' s s' a hc ha hs

/-- … and some library step is always possible until Connect has returned (no deadlock). -/
theorem lib_enabled (s : LState) (hc : s.groupCancelled = true) (hm : ∀ r, s.main ≠ .returned r) :
    ∃ a, a.isLib = true ∧ (step s a).isSome = true :=
  lib_enabled' s hc hm

/-- Hence after the cancellation at most `measure s` library steps happen, whatever the schedule. -/
theorem bounded_termination (s s' : LState) (acts : List Act) (hc : s.groupCancelled = true)
    (hl : ∀ a ∈ acts, a.isLib = true) (hr : run s acts = some s') : acts.length + measure s' ≤ measure s :=
  bounded_termination' s s' acts hc hl hr

/-- A schedule that keeps running library steps reaches `returned`: any maximal library run from a
    cancelled state ends in a returned state. -/
theorem maximal_run_returns (s s' : LState) (acts : List Act) (hc : s.groupCancelled = true)
    (hl : ∀ a ∈ acts, a.isLib = true) (hr : run s acts = some s')
    (hmax : ∀ a, a.isLib = true → step s' a = none) : ∃ r, s'.main = .returned r := by
  have _ := hl  -- not needed: the cancellation persists under every action
  exact maximal_run_returns' s s' acts hc hr hmax

/-! ### keep-alive pings disabled; a connection ends only for a reason -/

/-- `if c.Config.PingDelay <= 0 { return nil }`: the ping loop's early return leaves the group, the
    contexts, main and the other three loops exactly as they were. -/
theorem ping_off_does_not_end (s s' : LState) (hs : step s .pingDisabled = some s') :
    s'.groupCancelled = s.groupCancelled ∧ s'.groupErr = s.groupErr ∧ s'.parentCancelled = s.parentCancelled ∧
    s'.main = s.main ∧ s'.exec = s.exec ∧ s'.read = s.read ∧ s'.send = s.send :=
  ping_off_does_not_end' s s' hs

/-- The group is cancelled only after a terminating cause has occurred. -/
theorem no_spontaneous_end {s : LState} (h : Reach s) (hc : s.groupCancelled = true) :
    s.closeRequested = true ∨ s.peerClosed = true ∨ firstError s.delivered ≠ none ∨
    s.parseErrSeen = true ∨ s.pingTimedOut = true ∨ s.writeFailed = true :=
  cause_of_reach h hc

/-- Without a cause nothing has ended: the group is not cancelled, main is in `group.Wait()`, the
    exec / read / send loops are running, the socket is open and `conn` is set; the ping loop is
    running, or has returned nil because pings are disabled. -/
theorem up_without_cause {s : LState} (h : Reach s)
    (h1 : s.closeRequested = false) (h2 : s.peerClosed = false) (h3 : firstError s.delivered = none)
    (h4 : s.parseErrSeen = false) (h5 : s.pingTimedOut = false) (h6 : s.writeFailed = false) :
    s.groupCancelled = false ∧ s.main = .waiting ∧ s.exec = .running ∧ s.read = .running ∧ s.send = .running ∧
    (s.ping = .running ∨ (s.pingOff = true ∧ s.ping = .exited none)) ∧ s.sockClosed = false ∧ s.connNil = false := by
  have g := good_of_reach h
  have hgc : s.groupCancelled = false := by
    cases hx : s.groupCancelled with
    | false => rfl
    | true =>
      rcases cause_of_reach h hx with c | c | c | c | c | c
      · rw [h1] at c; cases c
      · rw [h2] at c; cases c
      · exact absurd h3 c
      · rw [h4] at c; cases c
      · rw [h5] at c; cases c
      · rw [h6] at c; cases c
  have running_of : ∀ l : Loop, (l.done = true → s.groupCancelled = true) → l = .running := by
    intro l hl
    cases l with
    | running => rfl
    | exited r => have := hl rfl; rw [hgc] at this; cases this
  have hexec := running_of s.exec g.exec_gc
  have hw : s.main = .waiting := g.waiting_of_exec hexec
  refine ⟨hgc, hw, hexec, running_of s.read g.read_gc, running_of s.send g.send_gc, ?_, g.sock_open hw, ?_⟩
  · cases hp : s.ping with
    | running => exact .inl rfl
    | exited r =>
      rcases g.ping_gc (by rw [hp]; rfl) with c | c
      · rw [hgc] at c; cases c
      · exact .inr ⟨c.1, by rw [← hp]; exact c.2⟩
  · rw [g.conn_eq, hw]; rfl

/-- If Connect has returned (indeed as soon as `group.Wait()` has returned), a cause has occurred. -/
theorem returned_has_cause {s : LState} (h : Reach s) (hm : s.main ≠ .waiting) :
    s.closeRequested = true ∨ s.peerClosed = true ∨ firstError s.delivered ≠ none ∨
    s.parseErrSeen = true ∨ s.pingTimedOut = true ∨ s.writeFailed = true := by
  have g := good_of_reach h
  exact cause_of_reach h (g.exec_gc (g.main_done hm).1)

/-- The three cause flags are history variables: a step from the state with the flags erased is enabled
    exactly when it is enabled from `s`, and leads to the same state up to the flags. So no step's
    enabledness or effect (on anything but the flags themselves) depends on them. -/
def forgetCauses (s : LState) : LState :=
  { s with parseErrSeen := false, pingTimedOut := false, writeFailed := false }

theorem forget_step_some (s s' : LState) (a : Act) (h : step s a = some s') :
    (step (forgetCauses s) a).map forgetCauses = some (forgetCauses s') := by
  cases a <;> simp only [step] at h <;> (repeat' split at h) <;>
    first
      | (cases h; done)
      | (cases h; simp_all [step, forgetCauses, LState.fail]; done)
      | (cases h; simp_all [step, forgetCauses, LState.fail]; split <;> simp_all; done)

theorem forget_step_none (s : LState) (a : Act) (h : step s a = none) : step (forgetCauses s) a = none := by
  cases a <;> simp only [step] at h <;> (repeat' split at h) <;>
    first
      | (cases h; done)
      | (simp_all [step, forgetCauses, LState.fail]; done)

theorem cause_flags_are_history (s : LState) (a : Act) :
    (step (forgetCauses s) a).map forgetCauses = (step s a).map forgetCauses := by
  cases h : step s a with
  | none => rw [forget_step_none s a h]
  | some s' => exact forget_step_some s s' a h

theorem cause_flags_enabled (s : LState) (a : Act) : (step (forgetCauses s) a).isSome = (step s a).isSome := by
  have h := congrArg Option.isSome (cause_flags_are_history s a)
  simpa using h

/-- Each flag is written by one action only. -/
theorem cause_flags_writers (s s' : LState) (a : Act) (hs : step s a = some s') :
    (a ≠ .readParseErr → s'.parseErrSeen = s.parseErrSeen) ∧
    (a ≠ .pingTimeout → s'.pingTimedOut = s.pingTimedOut) ∧
    (a ≠ .sendFail → s'.writeFailed = s.writeFailed) := by
  cases a <;> simp only [step] at hs <;> (repeat' split at hs) <;>
    first
      | (cases hs; done)
      | (cases hs; simp [LState.fail]; done)
      | (cases hs; simp [LState.fail]; split <;> simp [LState.fail]; done)

end Girc.Proofs.Life
