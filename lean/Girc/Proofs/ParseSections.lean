import Girc.Proofs.ParseParams
/-
  `cutSection`, `parseSource` and the section-wise parse lemma `parseEvent_sections`, which covers
  both rendered grammar lines and serialised events.
-/
namespace Girc.Proofs.ParseSections
open Girc Girc.Model Girc.Spec Girc.Proofs.ParseLemmas Girc.Proofs.ParseParams

/-- A leading `@tags ` / `:source ` section. -/
def secPart (lead : Byte) : Option Bytes → Bytes
  | some s => lead :: (s ++ [SP])
  | none => []

theorem cutSection_some (lead : Byte) (s rest : Bytes) (hl : lead ≠ SP) (hne : s ≠ [])
    (hsp : SP ∉ s) : cutSection lead (lead :: (s ++ SP :: rest)) = some (some s, rest) := by
  have hi : indexOf SP (lead :: (s ++ SP :: rest)) = some (s.length + 1) := by
    have := indexOf_append_cons SP rest (lead :: s) (by simp [hsp, Ne.symm hl])
    simpa using this
  have hlen : ¬ s.length + 1 < 2 := by
    cases s with
    | nil => exact absurd rfl hne
    | cons x xs => simp
  unfold cutSection
  simp only [List.head?_cons, if_true, hi, hlen, if_false]
  simp

theorem cutSection_none (lead : Byte) (raw : Bytes) (h : raw.head? ≠ some lead) :
    cutSection lead raw = some (none, raw) := by
  unfold cutSection
  simp [h]

theorem cutSection_secPart (lead : Byte) (sec : Option Bytes) (rest : Bytes) (hl : lead ≠ SP)
    (h : ∀ s, sec = some s → s ≠ [] ∧ SP ∉ s) (hr : rest.head? ≠ some lead) :
    cutSection lead (secPart lead sec ++ rest) = some (sec, rest) := by
  cases sec with
  | none => simpa [secPart] using cutSection_none lead rest hr
  | some s =>
    obtain ⟨hne, hsp⟩ := h s rfl
    have := cutSection_some lead s rest hl hne hsp
    simpa [secPart] using this

/-! ### `parseSource` -/

theorem bang_ne_at : BANG ≠ AT := by decide

theorem parseSource_renderPrefix (p : Prefix) (hn : p.name ≠ []) (hnb : BANG ∉ p.name)
    (hna : AT ∉ p.name) (hi : ∀ i, p.ident = some i → BANG ∉ i ∧ AT ∉ i)
    (hh : ∀ h, p.host = some h → BANG ∉ h) : parseSource (renderPrefix p) = meaningSource p := by
  obtain ⟨name, oi, oh⟩ := p
  simp only at hn hnb hna hi hh
  obtain ⟨u, hu⟩ : ∃ u, name.length = u + 1 := by
    cases name with
    | nil => exact absurd rfl hn
    | cons x xs => exact ⟨xs.length, rfl⟩
  cases oi with
  | none =>
    cases oh with
    | none =>
      simp [renderPrefix, parseSource, indexOf_none _ _ hnb, indexOf_none _ _ hna, meaningSource]
    | some h =>
      have hB : indexOf BANG (name ++ AT :: h) = none :=
        indexOf_none _ _ (by simp [hnb, hh h rfl, bang_ne_at])
      have hA : indexOf AT (name ++ AT :: h) = some (u + 1) := by
        rw [indexOf_append_cons _ _ _ hna, hu]
      have e1 : List.take (u + 1) (name ++ AT :: h) = name := by
        rw [← hu, List.take_left]
      have e2 : List.drop (u + 2) (name ++ AT :: h) = h := by
        have : u + 2 = name.length + 1 := by omega
        rw [this, ← List.drop_drop, List.drop_left]; rfl
      simp only [renderPrefix, List.append_nil, parseSource, hB, hA, meaningSource, Option.getD, e1, e2]
  | some i =>
    obtain ⟨hib, hia⟩ := hi i rfl
    cases oh with
    | none =>
      have hB : indexOf BANG (name ++ BANG :: i) = some (u + 1) := by
        rw [indexOf_append_cons _ _ _ hnb, hu]
      have hA : indexOf AT (name ++ BANG :: i) = none :=
        indexOf_none _ _ (by simp [hna, hia, Ne.symm bang_ne_at])
      have e1 : List.take (u + 1) (name ++ BANG :: i) = name := by
        rw [← hu, List.take_left]
      have e2 : List.drop (u + 2) (name ++ BANG :: i) = i := by
        have : u + 2 = name.length + 1 := by omega
        rw [this, ← List.drop_drop, List.drop_left]; rfl
      simp only [renderPrefix, List.append_nil, parseSource, hB, hA, meaningSource, Option.getD, e1, e2]
    | some h =>
      have hraw : name ++ BANG :: i ++ AT :: h = (name ++ BANG :: i) ++ AT :: h := rfl
      have hB : indexOf BANG (name ++ BANG :: i ++ AT :: h) = some (u + 1) := by
        rw [List.append_assoc, List.cons_append, indexOf_append_cons _ _ _ hnb, hu]
      have hA : indexOf AT (name ++ BANG :: i ++ AT :: h) = some (u + 1 + i.length + 1) := by
        rw [indexOf_append_cons _ _ _ (by simp [hna, hia, Ne.symm bang_ne_at])]
        simp [hu]; omega
      have hgt : u + 1 + i.length + 1 > u + 1 := by omega
      have e1 : List.take (u + 1) (name ++ BANG :: i ++ AT :: h) = name := by
        rw [List.append_assoc, ← hu, List.take_left]
      have e2 : List.drop (u + 2) (List.take (u + 1 + i.length + 1) (name ++ BANG :: i ++ AT :: h)) = i := by
        have h1 : u + 1 + i.length + 1 = (name ++ BANG :: i).length := by simp [hu]; omega
        rw [h1, List.take_left]
        have : u + 2 = name.length + 1 := by omega
        rw [this, ← List.drop_drop, List.drop_left]; rfl
      have e3 : List.drop (u + 1 + i.length + 1 + 1) (name ++ BANG :: i ++ AT :: h) = h := by
        have h1 : u + 1 + i.length + 1 + 1 = (name ++ BANG :: i).length + 1 := by simp [hu]; omega
        rw [h1, ← List.drop_drop, List.drop_left]; rfl
      simp only [renderPrefix, parseSource, hB, hA, meaningSource, Option.getD, hgt, if_true, e1, e2, e3]

/-! ### The section-wise parse lemma -/

theorem at_ne_sp : AT ≠ SP := by decide
theorem colon_ne_sp : COLON ≠ SP := by decide
theorem colon_ne_at : COLON ≠ AT := by decide

theorem parseEvent_sections (raw0 : Bytes) (tagSec srcSec : Option Bytes) (cmd P : Bytes)
    (hraw : trimCRLF raw0 = secPart AT tagSec ++ (secPart COLON srcSec ++ (cmd ++ P)))
    (hlen : 2 ≤ (trimCRLF raw0).length)
    (htag : ∀ ts, tagSec = some ts → ts ≠ [] ∧ SP ∉ ts)
    (hsrc : ∀ ss, srcSec = some ss → ss ≠ [] ∧ SP ∉ ss)
    (hne : cmd ≠ []) (hsp : SP ∉ cmd) (hat : cmd.head? ≠ some AT) (hcol : cmd.head? ≠ some COLON)
    (hP : SpLead P) :
    parseEvent raw0 = some { tags := tagSec.map parseTags, source := srcSec.map parseSource,
                             command := toUpperAscii cmd, params := parseParams (P.drop 1) } := by
  have hcmdhead : ∀ b, (cmd ++ P).head? = some b → cmd.head? = some b := by
    cases cmd with
    | nil => exact absurd rfl hne
    | cons x xs => intro b hb; simpa using hb
  have hA : cutSection AT (secPart AT tagSec ++ (secPart COLON srcSec ++ (cmd ++ P))) =
      some (tagSec, secPart COLON srcSec ++ (cmd ++ P)) := by
    apply cutSection_secPart AT tagSec _ at_ne_sp htag
    cases srcSec with
    | none =>
      simp only [secPart, List.nil_append]
      intro hh; exact hat (hcmdhead _ hh)
    | some ss => simp [secPart, colon_ne_at]
  have hC : cutSection COLON (secPart COLON srcSec ++ (cmd ++ P)) = some (srcSec, cmd ++ P) := by
    apply cutSection_secPart COLON srcSec _ colon_ne_sp hsrc
    intro hh; exact hcol (hcmdhead _ hh)
  unfold parseEvent
  simp only
  rw [if_neg (by omega), hraw, hA]
  simp only
  rw [hC]
  simp only
  rcases hP with hP | hP
  · subst hP
    rw [List.append_nil, indexOf_none _ _ hsp]
    simp [parseParams_nil]
  · cases P with
    | nil => simp at hP
    | cons x ps =>
      simp at hP
      subst hP
      rw [indexOf_append_cons _ _ _ hsp]
      simp only [List.take_left', List.drop_one, List.tail_cons]
      have : List.drop (cmd.length + 1) (cmd ++ SP :: ps) = ps := by
        rw [← List.drop_drop, List.drop_left]; rfl
      rw [this]

end Girc.Proofs.ParseSections
