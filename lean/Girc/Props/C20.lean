import Girc.Proofs.Format
import Girc.Gen.Facts
/- C20 — formatting helpers are compositional. Property theorems only. -/
namespace Girc.Props.C20
open Girc Girc.Model Girc.Spec

/-- Tie: the tables regenerated from format.go on this run are the documented ones. -/
theorem gen_colors : Gen.map_fmtColors = Spec.colors := by decide
theorem gen_codes : Gen.map_fmtCodes = Spec.codes := by decide
theorem gen_fmt_open : ∀ b : Byte, Gen.Fmt_bp0 b = (b == LBRACE) := by decide +kernel
theorem gen_fmt_inner : ∀ b : Byte, Gen.Fmt_bp1 b = !Model.fmtInner b := by decide +kernel
theorem gen_braces : Gen.const_fmtOpenChar = 0x7B ∧ Gen.const_fmtCloseChar = 0x7D := by decide

theorem fmt_compositional (items : List Item) (h : items.all wfItem = true) : fmt (src items) = out items :=
  Proofs.Format.fmt_compositional items h
theorem fmt_id (t : Bytes) (h : braceFree t = true) : fmt t = t := Proofs.Format.fmt_id t h
theorem trimfmt_exact (order : List Bytes) (hperm : order.Perm tokenNames) (items : List Item)
    (h : items.all wfItem = true) :
    trimFmt order (src items) = src (items.filter (fun it => !isLowerToken it)) :=
  Proofs.Format.trimfmt_exact order hperm items h
theorem strip_clean (t : Bytes) : ∀ b ∈ stripRaw t, b ∉ codeBytes := Proofs.Format.strip_clean t
theorem strip_id (t : Bytes) (h : hasCodeByte t = false) : stripRaw t = t := Proofs.Format.strip_id t h
theorem strip_idem (t : Bytes) : stripRaw (stripRaw t) = stripRaw t := Proofs.Format.strip_idem t
theorem strip_fmt (items : List Item) (h : items.all wfItem = true) (hl : literalsCodeFree items = true)
    (hd : noDigitAfterColor items = true) : stripRaw (fmt (src items)) = literals items :=
  Proofs.Format.strip_fmt items h hl hd

/-! Non-vacuity: "{RED}{b}Hello {red,blue}World{c}" -/
def sample : List Item :=
  [.name [0x52, 0x45, 0x44], .name [0x62], .lit [0x48, 0x69, 0x20], .pair [0x72, 0x65, 0x64] [0x62, 0x6C, 0x75, 0x65],
   .lit [0x57], .name [0x63]]
example : sample.all wfItem = true := by decide
example : literalsCodeFree sample = true ∧ noDigitAfterColor sample = true := by decide
example : fmt (src sample) = [0x03, 0x30, 0x34, 0x02, 0x48, 0x69, 0x20, 0x03, 0x30, 0x34, 0x2C, 0x30, 0x32, 0x57, 0x03] := by decide
example : stripRaw (fmt (src sample)) = [0x48, 0x69, 0x20, 0x57] := by decide

end Girc.Props.C20
