import Girc.Spec.EventSpec
import Girc.Spec.Grammar
import Girc.Proofs.Tags
import Girc.Proofs.Utf8
import Girc.Proofs.ParseRender
/-
  Facts about the serialiser on well-formed events: every section is valid UTF-8 and CR/LF-free
  (so `eventBytes = rawBytes`), and each section is of the shape `parseEvent_sections` handles.
-/
namespace Girc.Proofs.RoundtripLemmas
open Girc Girc.Model Girc.Spec
open Girc.Proofs.ParseLemmas Girc.Proofs.ParseParams Girc.Proofs.ParseSections Girc.Proofs.ParseTags
open Girc.Proofs.ParseRender

/-! ### Clean byte strings: valid UTF-8 without CR/LF -/

def Clean (s : Bytes) : Prop := validUTF8 s = true ∧ NoCRLF s

theorem Clean.nil : Clean [] := ⟨rfl, NoCRLF.nil⟩

theorem Clean.append {a b : Bytes} (ha : Clean a) (hb : Clean b) : Clean (a ++ b) :=
  ⟨Proofs.Utf8.validUTF8_append a b ha.1 hb.1, ha.2.append hb.2⟩

theorem Clean.single {b : Byte} (hb : b < 0x80) (hc : isCRLF b = false) : Clean [b] :=
  ⟨Proofs.Utf8.validUTF8_ascii [b] (by simp [hb]), NoCRLF.cons hc NoCRLF.nil⟩

theorem Clean.cons {b : Byte} {s : Bytes} (hb : b < 0x80) (hc : isCRLF b = false) (hs : Clean s) :
    Clean (b :: s) := (Clean.single hb hc).append hs

theorem Clean.of_ascii {s : Bytes} (ha : s.all (· < 0x80) = true) (hc : NoCRLF s) : Clean s :=
  ⟨Proofs.Utf8.validUTF8_ascii s ha, hc⟩

theorem Clean.joinWith {sep : Bytes} (hsep : Clean sep) :
    ∀ (items : List Bytes), (∀ it ∈ items, Clean it) → Clean (joinWith sep items)
  | [], _ => Clean.nil
  | [p], h => by simpa [Girc.joinWith] using h p (by simp)
  | p :: q :: ps, h => by
    simp only [Girc.joinWith]
    exact ((h p (by simp)).append hsep).append
      (Clean.joinWith hsep (q :: ps) (fun it hit => h it (by simp [hit])))

theorem Clean.eventBytes_eq {e : Event} (h : Clean (rawBytes e)) : eventBytes e = rawBytes e := by
  unfold eventBytes
  rw [Proofs.Utf8.toValidUTF8_of_valid _ _ h.1, h.2.filter]

theorem sp_clean : Clean [SP] := Clean.single (by decide) (by decide)

theorem secPart_clean (lead : Byte) (hl : lead < 0x80) (hc : isCRLF lead = false)
    (sec : Option Bytes) (h : ∀ s, sec = some s → Clean s) : Clean (secPart lead sec) := by
  cases sec with
  | none => exact Clean.nil
  | some s => exact Clean.cons hl hc ((h s rfl).append sp_clean)

/-! ### Fields -/

theorem nocrlf_byte : ∀ b : UInt8, (b != NUL && b != CR && b != LF) = true → isCRLF b = false := by
  decide +kernel

theorem fieldOK_clean (s : Bytes) (h : fieldOK s = true) : Clean s := by
  simp only [fieldOK, Bool.and_eq_true] at h
  exact ⟨h.1, NoCRLF.of_all h.2 nocrlf_byte⟩

/-! ### Command -/

theorem cmdByte_facts : ∀ b : UInt8, (0x21 ≤ b && b ≤ 0x7E && !(0x61 ≤ b && b ≤ 0x7A)) = true →
    b ≠ SP ∧ isCRLF b = false ∧ b < 0x80 ∧ upper1 b = b := by
  decide +kernel

theorem wfCmd_ok (c : Bytes) (h : wfCmd c = true) :
    CmdOK c ∧ Clean c ∧ toUpperAscii c = c := by
  simp only [wfCmd, Bool.and_eq_true, Bool.not_eq_true', bne_iff_ne, ne_eq] at h
  obtain ⟨⟨⟨hne, hall⟩, hcol⟩, hat⟩ := h
  have hb : ∀ b ∈ c, (0x21 ≤ b && b ≤ 0x7E && !(0x61 ≤ b && b ≤ 0x7A)) = true :=
    List.all_eq_true.mp hall
  have hcrlf : NoCRLF c := fun b hm => (cmdByte_facts _ (hb _ hm)).2.1
  refine ⟨⟨?_, ?_, hat, hcol, hcrlf⟩, ?_, ?_⟩
  · intro e; subst e; simp at hne
  · intro hm; exact (cmdByte_facts _ (hb _ hm)).1 rfl
  · apply Clean.of_ascii _ hcrlf
    rw [List.all_eq_true]
    intro b hm
    simpa using (cmdByte_facts _ (hb _ hm)).2.2.1
  · unfold toUpperAscii
    conv => rhs; rw [← List.map_id c]
    apply List.map_congr_left
    intro b hm
    exact (cmdByte_facts _ (hb _ hm)).2.2.2

/-! ### Source -/

theorem srcByte_facts : ∀ b : UInt8, (b != BANG && b != AT && b != SP) = true →
    b ≠ BANG ∧ b ≠ AT ∧ b ≠ SP := by
  decide +kernel

theorem wfSrcPart_ok (s : Bytes) (h : wfSrcPart s = true) :
    Clean s ∧ SP ∉ s ∧ BANG ∉ s ∧ AT ∉ s := by
  simp only [wfSrcPart, Bool.and_eq_true] at h
  have hb : ∀ b ∈ s, (b != BANG && b != AT && b != SP) = true := List.all_eq_true.mp h.2
  refine ⟨fieldOK_clean s h.1, ?_, ?_, ?_⟩
  · intro hm; exact (srcByte_facts _ (hb _ hm)).2.2 rfl
  · intro hm; exact (srcByte_facts _ (hb _ hm)).1 rfl
  · intro hm; exact (srcByte_facts _ (hb _ hm)).2.1 rfl

/-- The parse tree of a serialised source. -/
def prefixOf (s : Source) : Prefix :=
  ⟨s.name, if s.ident.length > 0 then some s.ident else none,
    if s.host.length > 0 then some s.host else none⟩

theorem sourceBytes_eq (s : Source) : sourceBytes s = renderPrefix (prefixOf s) := by
  unfold sourceBytes renderPrefix prefixOf
  by_cases hi : s.ident.length > 0 <;> by_cases hh : s.host.length > 0 <;> simp [hi, hh]

theorem meaningSource_prefixOf (s : Source) : meaningSource (prefixOf s) = s := by
  obtain ⟨name, ident, host⟩ := s
  unfold meaningSource prefixOf
  have h1 : ∀ x : Bytes, (if x.length > 0 then some x else none).getD [] = x := by
    intro x
    cases x <;> simp
  simp [h1]

theorem wfSource_ok (s : Source) (h : wfSource s = true) :
    sourceBytes s ≠ [] ∧ SP ∉ sourceBytes s ∧ Clean (sourceBytes s) ∧
      parseSource (sourceBytes s) = s := by
  simp only [wfSource, Bool.and_eq_true, Bool.not_eq_true'] at h
  obtain ⟨⟨⟨hne, hn⟩, hi⟩, hh⟩ := h
  obtain ⟨n1, n2, n3, n4⟩ := wfSrcPart_ok _ hn
  obtain ⟨i1, i2, i3, i4⟩ := wfSrcPart_ok _ hi
  obtain ⟨h1, h2, h3, h4⟩ := wfSrcPart_ok _ hh
  have hne' : s.name ≠ [] := by intro e; rw [e] at hne; simp at hne
  refine ⟨?_, ?_, ?_, ?_⟩
  · simp [sourceBytes, hne']
  · have a1 : SP ≠ BANG := by decide
    have a2 : SP ≠ AT := by decide
    unfold sourceBytes
    by_cases ci : s.ident.length > 0 <;> by_cases ch : s.host.length > 0 <;>
      simp [ci, ch, n2, i2, h2, a1, a2]
  · unfold sourceBytes
    refine (n1.append ?_).append ?_
    · by_cases ci : s.ident.length > 0
      · simp only [ci, if_true]; exact Clean.cons (by decide) (by decide) i1
      · simp only [ci, if_false]; exact Clean.nil
    · by_cases ch : s.host.length > 0
      · simp only [ch, if_true]; exact Clean.cons (by decide) (by decide) h1
      · simp only [ch, if_false]; exact Clean.nil
  · rw [sourceBytes_eq, parseSource_renderPrefix (prefixOf s) hne' n3 n4, meaningSource_prefixOf]
    · intro i hi'
      simp only [prefixOf] at hi'
      split at hi'
      · cases hi'; exact ⟨i3, i4⟩
      · cases hi'
    · intro i hi'
      simp only [prefixOf] at hi'
      split at hi'
      · cases hi'; exact h3
      · cases hi'

/-! ### Parameters -/

theorem wfMid_ok (p : Bytes) (h : wfMid p = true) : WkMid p ∧ Clean p := by
  simp only [wfMid, Bool.and_eq_true, Bool.not_eq_true', bne_iff_ne, ne_eq] at h
  obtain ⟨⟨⟨hf, hne⟩, hsp⟩, hc⟩ := h
  refine ⟨⟨?_, ?_, hc⟩, fieldOK_clean p hf⟩
  · intro e; subst e; simp at hne
  · intro hm; simp [hm] at hsp

theorem not_needsColon_wkMid (p : Bytes) (h : needsColon p = false) : WkMid p := by
  simp only [needsColon, Bool.or_eq_false_iff, decide_eq_false_iff_not] at h
  obtain ⟨⟨hsp, hne⟩, hc⟩ := h
  refine ⟨?_, ?_, hc⟩
  · intro e; subst e; simp at hne
  · intro hm; simp [hm] at hsp

theorem paramsBytes_render : ∀ (ps : List Bytes), wfParams ps = true →
    ∃ ms tr, paramsBytes ps = renderMiddles ms ++ trPart tr ∧ (∀ m ∈ ms, WkMid m.2) ∧
      ms.map (·.2) ++ trList tr = ps
  | [], _ => ⟨[], none, by simp [paramsBytes, renderMiddles, trPart], by simp, by simp [trList]⟩
  | [p], _ => by
    by_cases hc : needsColon p = true
    · exact ⟨[], some (0, p), by simp [paramsBytes, hc, renderMiddles, trPart, spaces], by simp,
        by simp [trList]⟩
    · have hc' : needsColon p = false := by simpa using hc
      refine ⟨[(0, p)], none, by simp [paramsBytes, hc', renderMiddles, trPart, spaces], ?_,
        by simp [trList]⟩
      intro m hm
      simp only [List.mem_singleton] at hm
      subst hm
      exact not_needsColon_wkMid p hc'
  | p :: q :: ps, h => by
    simp only [wfParams, Bool.and_eq_true] at h
    obtain ⟨ms, tr, h1, h2, h3⟩ := paramsBytes_render (q :: ps) h.2
    refine ⟨(0, p) :: ms, tr, ?_, ?_, ?_⟩
    · simp only [paramsBytes, renderMiddles, spaces] at h1 ⊢
      rw [h1]; simp
    · intro m hm
      simp only [List.mem_cons] at hm
      rcases hm with hm | hm
      · subst hm; exact (wfMid_ok p h.1).1
      · exact h2 m hm
    · simp [h3]

theorem paramsBytes_clean : ∀ (ps : List Bytes), wfParams ps = true → Clean (paramsBytes ps)
  | [], _ => Clean.nil
  | [p], h => by
    have hp : Clean p := fieldOK_clean p (by simpa [wfParams] using h)
    simp only [paramsBytes]
    split
    · exact Clean.cons (by decide) (by decide) (Clean.cons (by decide) (by decide) hp)
    · exact Clean.cons (by decide) (by decide) hp
  | p :: q :: ps, h => by
    simp only [wfParams, Bool.and_eq_true] at h
    simp only [paramsBytes]
    exact Clean.cons (by decide) (by decide)
      ((wfMid_ok p h.1).2.append (paramsBytes_clean (q :: ps) h.2))

theorem wfParams_ok (ps : List Bytes) (h : wfParams ps = true) :
    SpLead (paramsBytes ps) ∧ Clean (paramsBytes ps) ∧
      parseParams ((paramsBytes ps).drop 1) = ps := by
  obtain ⟨ms, tr, h1, h2, h3⟩ := paramsBytes_render ps h
  refine ⟨?_, paramsBytes_clean ps h, ?_⟩
  · rw [h1]
    apply spLead_renderMiddles_append
    rcases tr with _ | ⟨n, t⟩
    · exact spLead_nil
    · exact spLead_spaces_append n _
  · rw [h1, parseParams_render ms tr h2, h3]

/-! ### Tags -/

theorem mem_insertSorted (x y : Bytes) : ∀ l : List Bytes, y ∈ insertSorted x l → y = x ∨ y ∈ l
  | [], h => by simpa [insertSorted] using h
  | z :: zs, h => by
    unfold insertSorted at h
    split at h
    · simpa using h
    · simp only [List.mem_cons] at h
      rcases h with h | h
      · exact Or.inr (by simp [h])
      · rcases mem_insertSorted x y zs h with h | h
        · exact Or.inl h
        · exact Or.inr (by simp [h])

theorem mem_sortBytes (y : Bytes) : ∀ l : List Bytes, y ∈ sortBytes l → y ∈ l
  | [], h => by simp [sortBytes] at h
  | x :: xs, h => by
    have h' : y ∈ insertSorted x (sortBytes xs) := by simpa [sortBytes] using h
    rcases mem_insertSorted x y _ h' with h | h
    · simp [h]
    · simp [mem_sortBytes y xs h]

theorem lookup_mem {β : Type} (k : Bytes) (v : β) : ∀ t : List (Bytes × β),
    List.lookup k t = some v → (k, v) ∈ t
  | [], h => by simp [List.lookup] at h
  | (k', v') :: t, h => by
    unfold List.lookup at h
    split at h
    · rename_i heq
      simp only [beq_iff_eq] at heq
      cases h
      simp [heq]
    · simp [lookup_mem k v t h]

theorem wireSafeValue_clean (v : Bytes) (h : wireSafeValue v = true) : Clean v := by
  simp only [wireSafeValue, Bool.and_eq_true] at h
  refine ⟨h.1, NoCRLF.of_all h.2 ?_⟩
  intro b hb
  exact (tagValByte_facts b hb).2.1

theorem validTag_clean (k : Bytes) (h : validTag k = true) : Clean k :=
  Clean.of_ascii (validTag_ascii k h) (validTag_noCRLF k h)

/-- The tag section without the leading '@'. -/
def tagsJoin (t : Tags) : Bytes :=
  joinWith [0x3B] ((sortBytes (AMap.keys t)).map fun k => tagItem k ((AMap.get? t k).getD []))

theorem tagsBytesFull_eq (t : Tags) : tagsBytesFull t = AT :: tagsJoin t := rfl

theorem tagsJoin_clean (t : Tags)
    (h : ∀ p ∈ t, validTag p.1 = true ∧ wireSafeValue p.2 = true) : Clean (tagsJoin t) := by
  unfold tagsJoin
  apply Clean.joinWith (Clean.single (by decide) (by decide))
  intro it hit
  simp only [List.mem_map] at hit
  obtain ⟨k, hk, rfl⟩ := hit
  have hk' : k ∈ AMap.keys t := mem_sortBytes k _ hk
  simp only [AMap.keys, List.mem_map] at hk'
  obtain ⟨⟨k', v'⟩, hp, rfl⟩ := hk'
  have hkc : Clean k' := validTag_clean k' (h _ hp).1
  have hvc : Clean ((AMap.get? t k').getD []) := by
    cases hg : AMap.get? t k' with
    | none => exact Clean.nil
    | some v =>
      have := lookup_mem k' v t hg
      exact wireSafeValue_clean v (h _ this).2
  unfold tagItem
  apply hkc.append
  split
  · exact Clean.cons (by decide) (by decide) hvc
  · exact Clean.nil

theorem wfTags_parts (t : Tags) (h : wfTags t = true) :
    ∀ p ∈ t, validTag p.1 = true ∧ wireSafeValue p.2 = true := by
  simp only [wfTags, Bool.and_eq_true] at h
  intro p hp
  have := List.all_eq_true.mp h.1.2 p hp
  simpa using this

/-- The tag section of a serialised event. -/
def tagSecE : Option Tags → Option Bytes
  | some t => if t = [] then none else some (tagsJoin t)
  | none => none

theorem tagsWrite_eq (t : Option Tags) (h : ∀ m, t = some m → wfTags m = true) :
    tagsWrite t = secPart AT (tagSecE t) := by
  cases t with
  | none => simp [tagsWrite, tagsBytes, tagSecE, secPart]
  | some m =>
    by_cases hm : m = []
    · subst hm
      simp [tagsWrite, tagsBytes, tagSecE, secPart]
    · have := Proofs.Tags.tagsBytes_full m (h m rfl) hm
      simp only [tagsWrite, this, tagsBytesFull_eq, tagSecE, hm, if_false, secPart]
      simp

theorem tagSecE_ok (t : Option Tags) (h : ∀ m, t = some m → wfTags m = true) :
    ∀ s, tagSecE t = some s → s ≠ [] ∧ SP ∉ s ∧ Clean s := by
  intro s hs
  cases t with
  | none => simp [tagSecE] at hs
  | some m =>
    by_cases hm : m = []
    · simp [tagSecE, hm] at hs
    · simp only [tagSecE, hm, if_false, Option.some.injEq] at hs
      subst hs
      have hw := h m rfl
      have h1 := Proofs.Tags.tagsBytesFull_length m hw hm
      have h2 := Proofs.Tags.tagsBytesFull_noSpace m hw
      rw [tagsBytesFull_eq] at h1 h2
      refine ⟨?_, ?_, tagsJoin_clean m (wfTags_parts m hw)⟩
      · intro e; rw [e] at h1; simp at h1
      · intro hm'; exact h2 (by simp [hm'])

theorem tagSecE_parse (t : Option Tags) (h : ∀ m, t = some m → wfTags m = true) (k : Bytes) :
    AMap.get? (((tagSecE t).map parseTags).getD []) k = AMap.get? (t.getD []) k := by
  cases t with
  | none => rfl
  | some m =>
    by_cases hm : m = []
    · subst hm; rfl
    · have := Proofs.Tags.parseTags_full m (h m rfl) hm k
      rw [tagsBytesFull_eq] at this
      simpa [tagSecE, hm] using this

theorem rawBytes_shape (e : Event) (h : ∀ m, e.tags = some m → wfTags m = true) :
    rawBytes e = secPart AT (tagSecE e.tags) ++
      (secPart COLON (e.source.map sourceBytes) ++ (e.command ++ paramsBytes e.params)) := by
  unfold rawBytes
  rw [tagsWrite_eq _ h]
  cases e.source <;> simp [secPart]

end Girc.Proofs.RoundtripLemmas
