import Girc.Model.Event
/- Model of ctcp.go: DecodeCTCP, EncodeCTCPRaw. (The reply handlers are in Model/Handlers.lean.) -/
namespace Girc.Model
open Girc

def ctcpDelim : Byte := 0x01
def PRIVMSG : Bytes := [0x50, 0x52, 0x49, 0x56, 0x4D, 0x53, 0x47]
def NOTICE : Bytes := [0x4E, 0x4F, 0x54, 0x49, 0x43, 0x45]

-- `CTCPEvent` is declared in Girc/Base/GoSem.lean.

/-- `(c < 'A' || c > 'Z') && (c < '0' || c > '9')` negated. -/
def ctcpTagByte (c : Byte) : Bool := !((c < 0x41 || c > 0x5A) && (c < 0x30 || c > 0x39))

/-- `DecodeCTCP`. -/
def decodeCTCP (e : Event) : Option CTCPEvent :=
  match e.params with
  | [_, p] =>
    if p.length < 3 then none
    else if e.command != PRIVMSG && e.command != NOTICE then none
    else if p.head? != some ctcpDelim || p.getLast? != some ctcpDelim then none
    else
      let text := (p.drop 1).dropLast
      match indexOf SP text with
      | none =>
        if text.all ctcpTagByte then some ⟨e.source, text, [], e.command == NOTICE⟩ else none
      | some s =>
        if (text.take s).all ctcpTagByte then some ⟨e.source, text.take s, text.drop (s + 1), e.command == NOTICE⟩
        else none
  | _ => none

/-- `EncodeCTCPRaw`. -/
def encodeCTCPRaw (cmd text : Bytes) : Bytes :=
  if cmd.isEmpty then []
  else ctcpDelim :: cmd ++ (if text.length > 0 then SP :: text else []) ++ [ctcpDelim]

end Girc.Model
