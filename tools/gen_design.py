#!/usr/bin/env python3
"""Maintainer tool: (re)append Part II of DESIGN.md from tools/design_part2.md, filling the two tables from
seeded/*/meta.json and known_findings.json. Part I (the design written before the code) is left as it is,
apart from its status line."""
import json, glob, os, re
V = os.path.dirname(os.path.dirname(os.path.abspath(__file__)))
MARK = "\n---------------------------------------------------------------------------\n\n# Part II"
d = open(os.path.join(V, "DESIGN.md")).read()
part1 = d.split(MARK)[0].rstrip("\n") + "\n"
part1 = re.sub(r"Status: design only \(round 0\)\..*?\(since removed\)\.",
               "Status: Part I is the design as written before any code existed (round 0); Part II at the end of this\n"
               "file is the build report — what exists, where the build departed from the design, corrections, seeded\n"
               "changes, defects repaired, trusted base. Where they differ, Part II is right. All facts about girc's\n"
               "behaviour quoted in Part I were obtained by reading `/repo` and, where marked **[confirmed]**, by\n"
               "running the real code in a scratch module (since removed).", part1, flags=re.S)
p2 = open(os.path.join(V, "tools/design_part2.md")).read()
rows = ["| seeded change | property | what it does | what it needs | caught by | history |", "|---|---|---|---|---|---|"]
for f in sorted(glob.glob(os.path.join(V, "seeded/*/meta.json"))):
    m = json.load(open(f))
    res = "; ".join(r.split(" replay=")[0].replace("VIOLATION property=", "VIOLATION ") + (" (no-failing-input-found)" if r.strip().endswith("no-failing-input-found") else "")
                    for r in m.get("check_results", []) if "VIOLATION" in r) or "NOT CAUGHT"
    esc = lambda s: (s or "").replace("|", "\\|").replace("\n", " ")
    rows.append("| `%s` | %s | %s | %s | %s | %s |" % (m["name"], m.get("breaks", ""), esc(m.get("what")), esc(m.get("needs")), esc(res), esc(m.get("history"))))
p2 = p2.replace("SEEDED_TABLE_PLACEHOLDER", "\n".join(rows))
k = json.load(open(os.path.join(V, "known_findings.json")))
rows = ["| id | property | commit | what failed |", "|---|---|---|---|"]
for f in k["findings"]:
    what = re.sub(r"^fixed: property=\S+ \S+ ", "", f["what"]).replace("|", "\\|")
    rows.append("| %s | %s | `%s` | %s |" % (f["id"], f["property"], f["commit"], what))
p2 = p2.replace("FINDINGS_TABLE_PLACEHOLDER", "\n".join(rows))
import subprocess
nfix = subprocess.run(["git", "-C", "/repo", "log", "--oneline"], capture_output=True, text=True).stdout.count(" fix:")
p2 = p2.replace("NFIX", str(nfix))
open(os.path.join(V, "DESIGN.md"), "w").write(part1 + p2)
print("DESIGN.md: part I %d lines, part II %d lines" % (part1.count("\n"), p2.count("\n")))
