import Girc.Proofs.TransBase
/-
  Lemmas about the generic slice run-time of GoSem (`atA`, `sliceA`, `setA`, `makeA`, `copyA`) and the `[]string`
  variants (`atL`, `sliceL`), used by the phase-3 translator-equivalence proofs.
-/
namespace Girc.Proofs.Trans
open Girc Girc.Model Girc.Go

theorem atA_nat {α : Type} (s : List α) (n : Nat) (b : α) (h : s[n]? = some b) : atA s (n : Int) = .ok b := by
  unfold atA
  have hn : n < s.length := by
    rcases Nat.lt_or_ge n s.length with h' | h'
    · exact h'
    · rw [List.getElem?_eq_none h'] at h; cases h
  rw [if_pos (by omega)]
  simp [h]

theorem atA_step {α : Type} (s : List α) (n : Nat) (h : n < s.length) :
    ∃ c, s.drop n = c :: s.drop (n + 1) ∧ atA s (n : Int) = .ok c ∧ s[n]? = some c := by
  refine ⟨s[n], ?_, ?_, ?_⟩
  · rw [List.drop_eq_getElem_cons h]
  · exact atA_nat s n s[n] (by simp [h])
  · simp [h]

theorem atL_step (s : List Bytes) (n : Nat) (h : n < s.length) :
    ∃ c, s.drop n = c :: s.drop (n + 1) ∧ atL s (n : Int) = .ok c ∧ s[n]? = some c := by
  refine ⟨s[n], ?_, ?_, ?_⟩
  · rw [List.drop_eq_getElem_cons h]
  · exact atL_nat s n s[n] (by simp [h])
  · simp [h]

theorem atA_oob {α : Type} (s : List α) (i : Int) (h : ¬ (0 ≤ i ∧ i < s.length)) : atA s i = .error .indexOutOfRange := by
  unfold atA; rw [if_neg h]

theorem atL_oob (s : List Bytes) (i : Int) (h : ¬ (0 ≤ i ∧ i < s.length)) : atL s i = .error .indexOutOfRange := by
  unfold atL; rw [if_neg h]

theorem sliceA_to {α : Type} (s : List α) (hi : Nat) (h : hi ≤ s.length) : sliceA s 0 (hi : Int) = .ok (s.take hi) := by
  unfold sliceA
  rw [if_pos (by omega)]
  simp

theorem sliceA_from {α : Type} (s : List α) (lo : Nat) (h : lo ≤ s.length) :
    sliceA s (lo : Int) (len s) = .ok (s.drop lo) := by
  unfold sliceA len
  rw [if_pos (by omega)]
  have : ((s.length : Int) - (lo : Int)).toNat = s.length - lo := by omega
  simp only [Int.toNat_natCast, this]
  rw [List.take_of_length_le (by simp)]

theorem sliceL_to (s : List Bytes) (hi : Nat) (h : hi ≤ s.length) : sliceL s 0 (hi : Int) = .ok (s.take hi) := by
  unfold sliceL
  rw [if_pos (by omega)]
  simp

theorem sliceL_from (s : List Bytes) (lo : Nat) (h : lo ≤ s.length) :
    sliceL s (lo : Int) (len s) = .ok (s.drop lo) := by
  unfold sliceL len
  rw [if_pos (by omega)]
  have : ((s.length : Int) - (lo : Int)).toNat = s.length - lo := by omega
  simp only [Int.toNat_natCast, this]
  rw [List.take_of_length_le (by simp)]

theorem setA_nat {α : Type} (s : List α) (n : Nat) (v : α) (h : n < s.length) : setA s (n : Int) v = .ok (s.set n v) := by
  unfold setA
  rw [if_pos (by omega)]
  simp

theorem makeA_len {α : Type} (z : α) (s : List α) : makeA z (len s) = .ok (List.replicate s.length z) := by
  unfold makeA len
  rw [if_pos (by omega)]
  simp

theorem copyA_full {α : Type} (dst src : List α) (h : dst.length = src.length) : copyA dst src = src := by
  unfold copyA
  simp [h]

/-- `append(l[:j], l[j+1:]...)` at the first position of `x` is `List.erase`. -/
theorem take_drop_erase {α : Type} [BEq α] [LawfulBEq α] : ∀ (l : List α) (j : Nat) (x : α),
    l[j]? = some x → (∀ k, k < j → l[k]? ≠ some x) → l.take j ++ l.drop (j + 1) = l.erase x
  | [], _, _, h, _ => by simp at h
  | y :: ys, 0, x, h, _ => by
    simp at h; subst h; simp
  | y :: ys, j + 1, x, h, hk => by
    have hy : y ≠ x := by
      intro e; exact hk 0 (by omega) (by simp [e])
    have hbeq : (y == x) = false := by simp [hy]
    rw [List.erase_cons, hbeq]
    simp only [List.take_succ_cons, List.cons_append, List.drop_succ_cons, Bool.false_eq_true, if_false]
    rw [take_drop_erase ys j x (by simpa using h)]
    intro k hkj
    have := hk (k + 1) (by omega)
    simpa using this

end Girc.Proofs.Trans
