#!/usr/bin/env python3
"""Maintainer tool (never run by a check): refresh the list of required theorems per property
in obligations.json from what the Props modules currently contain. Review the diff before committing."""
import json, subprocess, sys, os
V = os.path.dirname(os.path.dirname(os.path.abspath(__file__)))
path = os.path.join(V, "obligations.json")
cfg = json.load(open(path)) if os.path.exists(path) else {}
props = sys.argv[1:] or sorted(cfg)
for p in props:
    c = cfg.setdefault(p, {})
    mods = c.setdefault("modules", [p])
    out = subprocess.run(["lake", "env", "lean", "--run", "Girc/Audit.lean"] + mods, cwd=os.path.join(V, "lean"),
                         stdout=subprocess.PIPE, text=True).stdout
    ths = sorted(json.loads(l)["theorem"] for l in out.splitlines() if l.startswith("{"))
    bad = [json.loads(l) for l in out.splitlines() if l.startswith("{") and not json.loads(l)["ok"]]
    if bad:
        print("NOT OK:", bad)
    c["theorems"] = ths
    c.setdefault("trusted_base", [])
    c.setdefault("assumptions", [])
    print(p, len(ths), "theorems")
json.dump(cfg, open(path, "w"), indent=1, sort_keys=True)
