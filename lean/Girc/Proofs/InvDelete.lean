import Girc.Proofs.InvBase
namespace Girc.Proofs.InvDelete
open Girc Girc.Model Girc.Spec

/-- `deleteUser` never dereferences nil on a consistent state and keeps it consistent. -/
theorem deleteUser_inv (st : St) (chan nick : Bytes) (h : Inv st) :
    ∃ st', st.deleteUser chan nick = .ok st' ∧ Inv st' := by
  sorry

theorem deleteChannel_inv (st : St) (chan : Bytes) (h : Inv st) :
    ∃ st', st.deleteChannel chan = .ok st' ∧ Inv st' := by
  sorry

end Girc.Proofs.InvDelete
