package main

import (
	"bufio"
	"fmt"
	"net"
	"strings"
	"time"

	"github.com/lrstanley/girc"
)

// C15 over the life of one client: the client's own identity used in every comparison (GetID) is the fold of its current
// nickname (GetNick) at all times — after the welcome renamed it, after a NICK change, and on the NEXT connection before
// the new welcome has arrived.
func init() {
	runners["idreconnect"] = func(c *Ctx, in map[string]string) {
		hin := hexIn(in)
		cl := girc.New(girc.Config{Server: "irc.example.org", Port: 6667, Nick: "test", User: "test", Name: "test", AllowFlood: true})
		check := func(when string) {
			if id, want := cl.GetID(), girc.ToRFC1459(cl.GetNick()); id != want {
				c.R.Violation("lookup.own_id", hin, fmt.Sprintf("%s: GetID()=%q GetNick()=%q", when, id, cl.GetNick()), want, "the client's own identity is not the RFC1459 fold of its current nickname")
			}
		}
		session := func(idx int, welcome string, rename string) bool {
			cli, srv := net.Pipe()
			ret := make(chan error, 1)
			go func() { ret <- cl.MockConnect(cli) }()
			rd := bufio.NewReader(srv)
			wait := func(prefix string) bool {
				for {
					srv.SetReadDeadline(time.Now().Add(3 * time.Second))
					l, err := rd.ReadString('\n')
					if err != nil {
						return false
					}
					if strings.HasPrefix(l, prefix) {
						return true
					}
				}
			}
			write := func(l string) {
				srv.SetWriteDeadline(time.Now().Add(2 * time.Second))
				srv.Write([]byte(l + "\r\n"))
			}
			defer func() {
				cl.Close()
				srv.Close()
				select {
				case <-ret:
				case <-time.After(5 * time.Second):
				}
			}()
			if !wait("USER") {
				return false
			}
			check(fmt.Sprintf("connection %d, before the welcome", idx))
			write(":srv NOTICE * :*** Looking up your hostname")
			write("PING :pre")
			if !wait("PONG") {
				return false
			}
			check(fmt.Sprintf("connection %d, after a pre-registration NOTICE", idx))
			write(":srv 001 " + welcome + " :Welcome")
			// (the tracked nick itself: GetNick falls back to Config.Nick while it is empty, and the welcome is handled in the background)
			for i := 0; i < 3000 && girc.VerifDumpState(cl)[0] != "nick="+welcome; i++ {
				time.Sleep(time.Millisecond)
			}
			check(fmt.Sprintf("connection %d, after 001 %s", idx, welcome))
			if rename != "" {
				write(":" + welcome + "!u@h NICK " + rename)
				write("PING :post")
				if !wait("PONG") {
					return false
				}
				check(fmt.Sprintf("connection %d, after NICK %s", idx, rename))
			}
			// … and the client knows ITSELF on every connection: its own JOIN makes it a member with its ident and host, its own
			// PART makes it leave (what the tracker does for any user, applied to the client's current name)
			cur := welcome
			if rename != "" {
				cur = rename
			}
			ch := fmt.Sprintf("#own%d", idx)
			write(":" + cur + "!myident@my.host JOIN " + ch)
			write(":srv 353 " + cur + " = " + ch + " :" + cur + " @bob")
			write("PING :joined")
			if !wait("PONG") {
				return false
			}
			me := cl.LookupUser(cur)
			if !cl.IsInChannel(ch) || me == nil || me.Ident != "myident" || me.Host != "my.host" || cl.GetIdent() != "myident" {
				c.R.Violation("track.own_join_reconnect", hin, fmt.Sprintf("connection %d as %q: IsInChannel=%v user=%v GetIdent=%q channels=%q", idx, cur, cl.IsInChannel(ch), me != nil, cl.GetIdent(), cl.ChannelList()),
					"member of "+ch+" with ident myident", "after its own JOIN the client is not tracked as a member under its current name (identity left over from an earlier connection?)")
			}
			write(":" + cur + "!myident@my.host PART " + ch)
			write("PING :parted")
			if !wait("PONG") {
				return false
			}
			if cl.IsInChannel(ch) || len(cl.ChannelList()) != 0 || len(cl.UserList()) != 0 {
				c.R.Violation("track.own_part_reconnect", hin, fmt.Sprintf("connection %d as %q: channels=%q users=%q", idx, cur, cl.ChannelList(), cl.UserList()), "nothing tracked",
					"after its own PART the channel and its users are still tracked")
			}
			return true
		}
		ok := session(0, "Other[1]", "") && session(1, "test", "Te^st\\") && session(2, "Zed{2}", "")
		if !ok {
			c.R.Mismatch("idreconnect.session", hin, "a scripted session did not complete", "")
		}
		c.R.Count("idreconnect", true, "own-id-across-connections")
	}
}
