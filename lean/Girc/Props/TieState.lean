import Girc.Proofs.TransState
/-
  Tie (TieState, C05): the list helpers of state.go regenerated from the Go source (Girc/Gen/Funcs.lean) equal the hand-written
  models of Model/State.lean the tracker invariants of C05 are about, for ALL inputs.  Pointer receivers that are written
  through: the generated function returns the new pointee.  Restatements of Girc/Proofs/TransState.lean + examples.

  RESTRICTION (say-so): `u.Perms.set(name, Perms{})` in addChannel and `u.Perms.remove(name)` in deleteChannel are method
  calls on the `*UserPerms` object (a mutex + `map[string]Perms`), which is outside the translator's model; the two
  statements are ERASED (TRANSLATOR_NOTES §2.6 rule 2) and the theorems cover every field of the user except `perms`.
-/
namespace Girc.Props.TieState
open Girc Girc.Model Girc.Gen

theorem tie_User_InChannel : ∀ (u : User) (name : Bytes), Fn.User_InChannel (some u) name = .ok (u.inChannel name) :=
  Proofs.Trans.User_InChannel_eq
theorem tie_User_addChannel : ∀ (u : User) (name : Bytes),
    Fn.User_addChannel (some u) name = .ok (some { u.addChannel name with perms := u.perms }) :=
  Proofs.Trans.User_addChannel_eq
theorem tie_User_deleteChannel : ∀ (u : User) (name : Bytes),
    Fn.User_deleteChannel (some u) name = .ok (some { u.deleteChannel name with perms := u.perms }) :=
  Proofs.Trans.User_deleteChannel_eq
theorem tie_Channel_UserIn : ∀ (c : Channel) (nick : Bytes), Fn.Channel_UserIn (some c) nick = .ok (c.userIn nick) :=
  Proofs.Trans.Channel_UserIn_eq
theorem tie_Channel_addUser : ∀ (c : Channel) (nick : Bytes), Fn.Channel_addUser (some c) nick = .ok (some (c.addUser nick)) :=
  Proofs.Trans.Channel_addUser_eq
theorem tie_Channel_deleteUser : ∀ (c : Channel) (nick : Bytes),
    Fn.Channel_deleteUser (some c) nick = .ok (some (c.deleteUser nick)) := Proofs.Trans.Channel_deleteUser_eq
theorem tie_User_nil : ∀ name : Bytes, Fn.User_InChannel none name = .error .nilDeref ∧
    Fn.User_addChannel none name = .error .nilDeref ∧ Fn.User_deleteChannel none name = .error .nilDeref :=
  Proofs.Trans.User_nil

-- "#B" is added (folded, sorted before "#c"); "#C" is found case-insensitively and removed
example : (Fn.User_addChannel (some { nick := [0x6E], chans := [[0x23, 0x63]] }) [0x23, 0x42]).map (fun r => r.map (·.chans)) =
    .ok (some [[0x23, 0x62], [0x23, 0x63]]) := by rfl
example : (Fn.User_deleteChannel (some { nick := [0x6E], chans := [[0x23, 0x62], [0x23, 0x63]] }) [0x23, 0x43]).map
    (fun r => r.map (·.chans)) = .ok (some [[0x23, 0x62]]) := by rfl
example : Fn.User_InChannel (some { nick := [0x6E], chans := [[0x23, 0x62]] }) [0x23, 0x42] = .ok true := by rfl
example : (Fn.Channel_addUser (some { name := [0x23], users := [[0x62]], modes := newCModes [] [] }) [0x41]).map
    (fun r => r.map (·.users)) = .ok (some [[0x61], [0x62]]) := by rfl
example : (Fn.Channel_deleteUser (some { name := [0x23], users := [[0x61], [0x62]], modes := newCModes [] [] }) [0x42]).map
    (fun r => r.map (·.users)) = .ok (some [[0x61]]) := by rfl

end Girc.Props.TieState
