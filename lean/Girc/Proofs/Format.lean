import Girc.Spec.FormatSpec
namespace Girc.Proofs.Format
open Girc Girc.Model Girc.Spec

theorem fmt_compositional (items : List Item) (h : items.all wfItem = true) : fmt (src items) = out items := by
  sorry

theorem fmt_id (t : Bytes) (h : braceFree t = true) : fmt t = t := by
  sorry

/-- For EVERY iteration order of the token maps. -/
theorem trimfmt_exact (order : List Bytes) (hperm : order.Perm tokenNames) (items : List Item)
    (h : items.all wfItem = true) :
    trimFmt order (src items) = src (items.filter (fun it => !isLowerToken it)) := by
  sorry

theorem strip_clean (t : Bytes) : ∀ b ∈ stripRaw t, b ∉ codeBytes := by
  sorry

theorem strip_id (t : Bytes) (h : hasCodeByte t = false) : stripRaw t = t := by
  sorry

theorem strip_idem (t : Bytes) : stripRaw (stripRaw t) = stripRaw t := by
  sorry

theorem strip_fmt (items : List Item) (h : items.all wfItem = true) (hl : literalsCodeFree items = true)
    (hd : noDigitAfterColor items = true) : stripRaw (fmt (src items)) = literals items := by
  sorry

end Girc.Proofs.Format
