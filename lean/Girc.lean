import Girc.Base.Bytes
import Girc.Model.Names
import Girc.Model.Glob
