import Girc.Proofs.TransParseTags
import Girc.Proofs.InvSort
/-
  Translator equivalence, cap_tags.go (serialiser side): Tags.Bytes, Tags.writeTo, Tags.Len, Tags.Set.
-/
set_option linter.unusedSimpArgs false
namespace Girc.Proofs.Trans
open Girc Girc.Model Girc.Go Girc.Gen

/-! ### Tags.Bytes -/

/-- The `for tagName := range t` loop collects the keys in the order it is given. -/
theorem Tags_Bytes_loop1_eq : ∀ (fuel : Nat) (ks names : List Bytes), ks.length < fuel →
    Fn.Tags_Bytes_loop1 fuel ks names = .ok (.done (names ++ ks))
  | 0, _, _, h => by omega
  | fuel + 1, [], names, _ => by simp [Fn.Tags_Bytes_loop1, pure, Except.pure]
  | fuel + 1, k :: ks, names, h => by
    unfold Fn.Tags_Bytes_loop1
    simp only []
    rw [Tags_Bytes_loop1_eq fuel ks (names ++ [k]) (by simp at h; omega)]
    simp

/-- What the caller of the writing loop does with its result: both exits return the buffer. -/
def tbOut : LoopR (Bytes × Int) Bytes → Bytes
  | .ret b => b
  | .done (b, _) => b

theorem tb_step {P Q : Prop} [Decidable P] [Decidable Q] (hpq : P ↔ Q) (X : Except Fault (LoopR (Bytes × Int) Bytes))
    (B B' item : Bytes) (rest : Nat → Bytes) (hB : B' = B ++ item)
    (h : ∃ r, X = .ok r ∧ tbOut r = B' ++ rest B'.length) :
    ∃ r, (if decide P = true then .ok (.ret B) else X) = .ok r ∧
      tbOut r = B ++ if Q then [] else item ++ rest (B.length + item.length) := by
  by_cases hp : P
  · have hq : Q := hpq.mp hp
    exact ⟨.ret B, by simp [hp], by simp [hq, tbOut]⟩
  · have hq : ¬ Q := fun q => hp (hpq.mpr q)
    obtain ⟨r, h1, h2⟩ := h
    subst hB
    exact ⟨r, by simp [hp, h1], by simp [hq, h2]⟩

theorem Tags_Bytes_loop2_eq (m : Tags) (names : List Bytes) : ∀ (fuel n : Nat) (B : Bytes),
    n ≤ names.length → names.length - n < fuel →
    ∃ r, Fn.Tags_Bytes_loop2 (some m) (names.length : Int) names fuel B (n : Int) (n : Int) = .ok r ∧
      tbOut r = B ++ tagsBytesLoop m (names.drop n) B.length
  | 0, _, _, _, h => by omega
  | fuel + 1, n, B, hn, hf => by
    unfold Fn.Tags_Bytes_loop2
    by_cases hlt : n < names.length
    · have hx : names[n]? = some names[n] := by simp [hlt]
      have hp := atL_nat names n names[n] hx
      have hd : names.drop n = names[n] :: names.drop (n + 1) := List.drop_eq_getElem_cons hlt
      generalize names[n] = k at hx hp hd
      have hc : decide ((n : Int) < len names) = true := by dec_tac
      rw [hd]
      unfold tagsBytesLoop
      have hmg : (AMap.get? m k).getD [] = mapGet (some m) k := rfl
      simp only [hc, hp, hmg, bind, Except.bind, pure, Except.pure, Bool.not_true, Bool.false_eq_true, if_false]
      generalize mapGet (some m) k = v
      have e1 : ((n : Int) + 1) = ((n + 1 : Nat) : Int) := by omega
      have hmx : (Fn.maxTagLength : Int) = ((maxTagLength : Nat) : Int) := rfl
      have h3d : Fn.prefixTagValue = 0x3D := rfl
      have h3b : Fn.tagSeparator = 0x3B := rfl
      by_cases hv : v.length > 0 <;> by_cases hl : n + 1 < names.length
      all_goals
        first
        | have c1 : decide (len v > 0) = true := by dec_tac
        | have c1 : decide (len v > 0) = false := by dec_tac
      all_goals
        first
        | have c2 : decide ((n : Int) < (names.length : Int) - 1) = true := by dec_tac
        | have c2 : decide ((n : Int) < (names.length : Int) - 1) = false := by dec_tac
      all_goals
        first
        | have e2 : (names.drop (n + 1)).isEmpty = false := by simp; omega
        | have e2 : (names.drop (n + 1)).isEmpty = true := by simp; omega
      all_goals simp only [c1, c2, e2, hv, if_true, if_false, Bool.false_eq_true, h3d, h3b, e1]
      all_goals
        refine tb_step ?_ _ B _ _ (fun c => tagsBytesLoop m (names.drop (n + 1)) c) ?_
          (Tags_Bytes_loop2_eq m names fuel (n + 1) _ (by omega) (by omega))
      all_goals first
        | (simp only [len, Fn.maxTagLength, maxTagLength]; omega)
        | simp
    · have hc : decide ((n : Int) < len names) = false := by dec_tac
      have : names.drop n = [] := by simp; omega
      refine ⟨.done (B, n), ?_, ?_⟩
      · simp [hc, pure, Except.pure]
      · simp [tbOut, this, tagsBytesLoop]

theorem Tags_Bytes_eq (t : Option Tags) : Fn.Tags_Bytes t = .ok (tagsBytes t) := by
  unfold Fn.Tags_Bytes tagsBytes
  cases t with
  | none => rfl
  | some m =>
    cases m with
    | nil => rfl
    | cons p ps =>
      have hne : ((mapLen (some (p :: ps))) == 0) = false := by
        have : ¬ ((↑(ps.length) : Int) + 1 = 0) := by omega
        simp [mapLen, this]
      have hlen : (mapLen (some (p :: ps)) : Int) = ((sortBytes (AMap.keys (p :: ps))).length : Int) := by
        rw [InvBase.length_sortBytes]; simp [mapLen, AMap.keys]
      have hl1 := Tags_Bytes_loop1_eq ((mapKeys (some (p :: ps))).length + 1) (mapKeys (some (p :: ps))) [] (by omega)
      obtain ⟨r, hr, ho⟩ := Tags_Bytes_loop2_eq (p :: ps) (sortBytes (AMap.keys (p :: ps)))
        (fuelTo 0 (len (sortBytes (AMap.keys (p :: ps))))) 0 [0x40] (by omega) (by fuel_tac)
      have hp : Fn.prefixTag = 0x40 := rfl
      simp only [mapKeys, List.nil_append] at hl1
      simp only [Option.isNone_some, Bool.false_eq_true, if_false, hne, bind, Except.bind, pure, Except.pure,
        sortStrings, mapKeys, hl1, hp]
      simp only [Int.natCast_zero] at hr
      rw [hlen, List.nil_append, hr]
      cases r with
      | ret b => simpa [tbOut] using ho
      | done st => obtain ⟨b, c⟩ := st; simpa [tbOut] using ho

/-! ### Order independence

`for tagName := range t` visits the keys in an order Go does not specify.  The translation visits them in the order
of the association list that represents the map, and `Tags_Bytes_eq` holds for EVERY list.  Two lists that are
permutations of each other (with unique keys) represent the same Go map; the result is the same for both, because
the keys are sorted before they are used. -/

theorem lookup_perm {β : Type} {l₁ l₂ : List (Bytes × β)} (h : l₁.Perm l₂) :
    (l₁.map (·.1)).Nodup → ∀ k : Bytes, l₁.lookup k = l₂.lookup k := by
  induction h with
  | nil => intros; rfl
  | cons x _ ih =>
    intro hnd k
    obtain ⟨a, b⟩ := x
    simp only [List.map_cons, List.nodup_cons] at hnd
    simp only [List.lookup_cons, ih hnd.2 k]
  | swap x y l =>
    intro hnd k
    obtain ⟨a, b⟩ := x
    obtain ⟨c, d⟩ := y
    simp only [List.map_cons, List.nodup_cons, List.mem_cons, not_or] at hnd
    have hne : c ≠ a := hnd.1.1
    simp only [List.lookup_cons]
    by_cases h1 : k = c
    · subst h1
      have : (k == a) = false := by simp [hne]
      simp [this]
    · have : (k == c) = false := by simp [h1]
      simp [this]
  | trans h₁ _ ih₁ ih₂ =>
    intro hnd k
    rw [ih₁ hnd k]
    exact ih₂ ((List.Perm.map (fun p : Bytes × β => p.1) h₁).nodup_iff.mp hnd) k

theorem tagsBytesLoop_congr (t t' : Tags) (h : ∀ k, AMap.get? t k = AMap.get? t' k) :
    ∀ (ks : List Bytes) (cur : Nat), tagsBytesLoop t ks cur = tagsBytesLoop t' ks cur
  | [], _ => rfl
  | k :: ks, cur => by
    unfold tagsBytesLoop
    simp only [h k, tagsBytesLoop_congr t t' h ks]

/-- The model's `tagsBytes` does not depend on which permutation of the entries represents the map. -/
theorem tagsBytes_perm {t t' : Tags} (h : t.Perm t') (hnd : (AMap.keys t).Nodup) :
    tagsBytes (some t) = tagsBytes (some t') := by
  have hk : (AMap.keys t).Perm (AMap.keys t') := List.Perm.map (fun p : Bytes × Bytes => p.1) h
  have hnd' : (AMap.keys t').Nodup := hk.nodup_iff.mp hnd
  have hs : sortBytes (AMap.keys t) = sortBytes (AMap.keys t') := by
    apply InvBase.sortedStrict_ext (InvBase.sortedStrict_sortBytes hnd) (InvBase.sortedStrict_sortBytes hnd')
    intro x
    rw [InvBase.mem_sortBytes, InvBase.mem_sortBytes]
    exact hk.mem_iff
  have he : t.isEmpty = t'.isEmpty := by
    cases t <;> cases t' <;> simp_all
  unfold tagsBytes
  simp only [he, hs]
  rw [tagsBytesLoop_congr t t' (fun k => lookup_perm h hnd k)]

/-- Hence neither does the translated function: whatever order the `range` loop meets the keys in, the bytes are
    the same. -/
theorem Tags_Bytes_order {t t' : Tags} (h : t.Perm t') (hnd : (AMap.keys t).Nodup) :
    Fn.Tags_Bytes (some t) = Fn.Tags_Bytes (some t') := by
  rw [Tags_Bytes_eq, Tags_Bytes_eq, tagsBytes_perm h hnd]

/-! ### Tags.Len, Tags.writeTo -/

theorem Tags_Len_eq (t : Option Tags) : Fn.Tags_Len t = .ok (tagsLen t : Int) := by
  unfold Fn.Tags_Len tagsLen
  cases t with
  | none => rfl
  | some m => simp [Tags_Bytes_eq, bind, Except.bind, pure, Except.pure, len]

/-- `Tags.writeTo(w)` on a `*bytes.Buffer`: the bytes written are `tagsWrite t`, `n` is their number, `err` is nil. -/
theorem Tags_writeTo_eq (t : Option Tags) (w : Bytes) :
    Fn.Tags_writeTo t w = .ok (((tagsWrite t).length : Int), none, w ++ tagsWrite t) := by
  unfold Fn.Tags_writeTo tagsWrite
  simp only [Tags_Bytes_eq, bind, Except.bind, pure, Except.pure]
  cases h : tagsBytes t with
  | nil => simp [len]
  | cons b bs =>
    have hs : Fn.eventSpace = SP := rfl
    have : ¬ ((↑bs.length : Int) + 1 = 0) := by omega
    simp [len, hs, this]

/-! ### Tags.Set -/

theorem tagEncoder_find (b : Byte) (rest : Bytes) :
    Fn.tagEncoder.find? (fun p => p.1.isPrefixOf (b :: rest)) =
      if b = 0x3B then some ([0x3B], [0x5C, 0x3A])
      else if b = 0x20 then some ([0x20], [0x5C, 0x73])
      else if b = 0x5C then some ([0x5C], [0x5C, 0x5C])
      else if b = 0x0D then some ([0x0D], [0x5C, 0x72])
      else if b = 0x0A then some ([0x0A], [0x5C, 0x6E])
      else none := by
  by_cases h1 : b = 0x3B
  · subst h1; simp [Fn.tagEncoder, List.find?, List.isPrefixOf]
  by_cases h2 : b = 0x20
  · subst h2; simp [Fn.tagEncoder, List.find?, List.isPrefixOf]
  by_cases h3 : b = 0x5C
  · subst h3; simp [Fn.tagEncoder, List.find?, List.isPrefixOf]
  by_cases h4 : b = 0x0D
  · subst h4; simp [Fn.tagEncoder, List.find?, List.isPrefixOf]
  by_cases h5 : b = 0x0A
  · subst h5; simp [Fn.tagEncoder, List.find?, List.isPrefixOf]
  have e1 : ((0x3B : UInt8) == b) = false := by simp; exact fun e => h1 e.symm
  have e2 : ((0x20 : UInt8) == b) = false := by simp; exact fun e => h2 e.symm
  have e3 : ((0x5C : UInt8) == b) = false := by simp; exact fun e => h3 e.symm
  have e4 : ((0x0D : UInt8) == b) = false := by simp; exact fun e => h4 e.symm
  have e5 : ((0x0A : UInt8) == b) = false := by simp; exact fun e => h5 e.symm
  simp [Fn.tagEncoder, List.find?, List.isPrefixOf, h1, h2, h3, h4, h5, e1, e2, e3, e4, e5]

theorem replacer_tagEncoder_fuel : ∀ (n : Nat) (v : Bytes), v.length < n → replacerFuel Fn.tagEncoder n v = tagEncode v
  | 0, _, h => by omega
  | n + 1, [], _ => by simp [replacerFuel, tagEncode]
  | n + 1, b :: rest, h => by
    unfold replacerFuel
    rw [tagEncoder_find]
    have ih := replacer_tagEncoder_fuel n rest (by simp at h; omega)
    have hc : tagEncode (b :: rest) = tagEnc1 b ++ tagEncode rest := by simp [tagEncode]
    rw [hc]
    unfold tagEnc1
    by_cases h1 : b = 0x3B
    · simp [h1, ih]
    by_cases h2 : b = 0x20
    · simp [h2, ih]
    by_cases h3 : b = 0x5C
    · simp [h3, ih]
    by_cases h4 : b = 0x0D
    · simp [h4, ih]
    by_cases h5 : b = 0x0A
    · simp [h5, ih]
    simp [h1, h2, h3, h4, h5, ih]

theorem replacer_tagEncoder (v : Bytes) : replacer Fn.tagEncoder v = tagEncode v :=
  replacer_tagEncoder_fuel (v.length + 1) v (by omega)

/-- `Tags.Set` on a non-nil map: the error is nil exactly when the model accepts, and the caller's map is then
    the model's new map (otherwise it is unchanged). -/
theorem Tags_Set_eq (m : Tags) (key value : Bytes) :
    Fn.Tags_Set (some m) key value = .ok (match tagsSet m key value with
                                          | some m' => (none, some m')
                                          | none => (some GoErr.mk, some m)) := by
  unfold Fn.Tags_Set tagsSet
  simp only [Option.isNone_some, Bool.false_eq_true, if_false, validTag_eq, validTagValue_eq, replacer_tagEncoder,
    Tags_Len_eq, bind, Except.bind, pure, Except.pure, mapSet_some]
  cases hk : validTag key with
  | false => simp
  | true =>
    simp only [Bool.not_true, Bool.false_eq_true, if_false]
    have c1 : decide (len (tagEncode value) > 0) = decide ((tagEncode value).length > 0) := by decc_tac
    rw [c1]
    by_cases hl : (tagEncode value).length > 0
    · cases hv : validTagValue (tagEncode value) with
      | false => simp [hl]
      | true =>
        have c2 : decide ((tagsLen (some m) : Int) + len key + len (tagEncode value) + 2 > Fn.maxTagLength) =
            decide (tagsLen (some m) + key.length + (tagEncode value).length + 2 > maxTagLength) := by
          apply decide_congr; simp only [len, Fn.maxTagLength, maxTagLength]; omega
        simp only [hl, decide_true, andE_true, Bool.not_true, Bool.false_eq_true, if_false, c2, Bool.true_and]
        by_cases ho : tagsLen (some m) + key.length + (tagEncode value).length + 2 > maxTagLength <;> simp [ho]
    · have c2 : decide ((tagsLen (some m) : Int) + len key + len (tagEncode value) + 2 > Fn.maxTagLength) =
          decide (tagsLen (some m) + key.length + (tagEncode value).length + 2 > maxTagLength) := by
        apply decide_congr; simp only [len, Fn.maxTagLength, maxTagLength]; omega
      simp only [hl, decide_false, andE_false, Bool.false_eq_true, if_false, c2, Bool.false_and]
      by_cases ho : tagsLen (some m) + key.length + (tagEncode value).length + 2 > maxTagLength <;> simp [ho]

/-- `Tags.Set` on a nil map: the receiver is re-bound to a fresh local map, the caller's (nil) map is untouched;
    only the error tells whether the fresh map would have accepted the pair. -/
theorem Tags_Set_nil (key value : Bytes) :
    Fn.Tags_Set none key value = .ok (if (tagsSet [] key value).isSome then none else some GoErr.mk, none) := by
  unfold Fn.Tags_Set tagsSet
  simp only [Option.isNone_none, if_true, validTag_eq, validTagValue_eq, replacer_tagEncoder,
    Tags_Len_eq, bind, Except.bind, pure, Except.pure, mapSet_some]
  cases hk : validTag key with
  | false => simp
  | true =>
    simp only [Bool.not_true, Bool.false_eq_true, if_false]
    have c1 : decide (len (tagEncode value) > 0) = decide ((tagEncode value).length > 0) := by decc_tac
    have c2 : decide ((tagsLen (some []) : Int) + len key + len (tagEncode value) + 2 > Fn.maxTagLength) =
        decide (tagsLen (some []) + key.length + (tagEncode value).length + 2 > maxTagLength) := by
      apply decide_congr; simp only [len, Fn.maxTagLength, maxTagLength]; omega
    rw [c1]
    by_cases hl : (tagEncode value).length > 0
    · cases hv : validTagValue (tagEncode value) with
      | false => simp [hl]
      | true =>
        simp only [hl, decide_true, andE_true, Bool.not_true, Bool.false_eq_true, if_false, c2, Bool.true_and]
        by_cases ho : tagsLen (some []) + key.length + (tagEncode value).length + 2 > maxTagLength <;> simp [ho]
    · simp only [hl, decide_false, andE_false, Bool.false_eq_true, if_false, c2, Bool.false_and]
      by_cases ho : tagsLen (some []) + key.length + (tagEncode value).length + 2 > maxTagLength <;> simp [ho]

end Girc.Proofs.Trans
