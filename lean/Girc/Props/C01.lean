import Girc.Proofs.Roundtrip
/-
  C01 — wire codec round trip. Property theorems only.
-/
namespace Girc.Props.C01
open Girc Girc.Model Girc.Spec

/-- Escaping is invertible: the decoder undoes the encoder on every byte string. -/
theorem decode_encode (v : Bytes) : tagDecode (tagEncode v) = v := Proofs.Tags.tagDecode_tagEncode v

/-- A tag read back through `Tags.Get` equals the value given to `Tags.Set`. -/
theorem tag_get_set (t t' : Tags) (k v : Bytes) (h : tagsSet t k v = some t') :
    tagsGet (some t') k = some v := Proofs.Tags.tagsSet_get t t' k v h

/-- Every map built by `Tags.Set` calls from the empty map satisfies the well-formedness the
    round trip needs. -/
theorem api_tags_wf_nil : wfTags [] = true := Proofs.Tags.wfTags_nil
theorem api_tags_wf_set (t t' : Tags) (k v : Bytes) (hw : wfTags t = true) (h : tagsSet t k v = some t') :
    wfTags t' = true := Proofs.Tags.tagsSet_wf t t' k v hw h

/-- First sentence: parsing the serialised line of a well-formed event yields the same command,
    parameters, source and stored tag values … -/
theorem roundtrip_event (e : Event) (h : WFEvent e = true) :
    ∃ e', parseEvent (eventBytes e) = some e' ∧ EventEquiv e' e :=
  Proofs.Roundtrip.roundtrip_event e h

/-- … and hence `Tags.Get` after the round trip returns what `Tags.Get` returned before
    (which by `tag_get_set` is the value given to `Tags.Set`). -/
theorem roundtrip_get (e : Event) (h : WFEvent e = true) :
    ∃ e', parseEvent (eventBytes e) = some e' ∧ ∀ k, tagsGet (some (e'.tags.getD [])) k = tagsGet (some (e.tags.getD [])) k := by
  obtain ⟨e', hp, _, _, _, ht⟩ := roundtrip_event e h
  exact ⟨e', hp, fun k => by simp [tagsGet, ht k]⟩

/-- Second sentence: parse, serialise, parse again — same event. -/
theorem roundtrip_line (l : Line) (h : wfLine l = true) (hc : Proofs.Roundtrip.lineClean l = true) :
    ∃ e₁ e₂, parseEvent (render l) = some e₁ ∧ parseEvent (eventBytes e₁) = some e₂ ∧ EventEquiv e₂ e₁ :=
  Proofs.Roundtrip.roundtrip_line l h hc

/-! Non-vacuity: three params with a colon-leading, space-bearing last one, full source, a tag
    whose value contains all five escapable characters. -/
def sampleTags : Tags := ((tagsSet [] [0x6B] [0x3B, 0x20, 0x5C, 0x0D, 0x0A]).getD [])
def sampleEvent : Event :=
  { tags := some sampleTags
    source := some ⟨[0x6E], [0x75], [0x68]⟩
    command := [0x50, 0x52]
    params := [[0x23, 0x63], [0x78], [0x3A, 0x61, 0x20, 0x62]] }
example : WFEvent sampleEvent = true := by decide
example : sampleTags ≠ [] := by decide
example : tagsGet (some sampleTags) [0x6B] = some [0x3B, 0x20, 0x5C, 0x0D, 0x0A] := by decide

end Girc.Props.C01
