import Girc.Spec.Inv
import Girc.Proofs.TagsAux
/-
  Base library for the state invariant: association-list and sorted-list lemmas, the invariant of
  the initial state, and preservation under attribute-only updates.
-/
namespace Girc.Proofs.InvBase
open Girc Girc.Model Girc.Spec

theorem inv_init : Inv ({} : St) := by
  sorry

/-- Replacing a user by one with the same nick and channel list preserves the invariant. -/
theorem inv_setUser_attrs (st : St) (n : Bytes) (u u' : User) (h : Inv st) (hm : (n, u) ∈ st.users)
    (hn : u'.nick = u.nick) (hc : u'.chans = u.chans) : Inv (setUser st n u') := by
  sorry

/-- Replacing a channel by one with the same name and user list preserves the invariant. -/
theorem inv_setChannel_attrs (st : St) (k : Bytes) (c c' : Channel) (h : Inv st) (hm : (k, c) ∈ st.channels)
    (hn : c'.name = c.name) (hu : c'.users = c.users) : Inv (setChannel st k c') := by
  sorry

/-- Fields outside the two maps do not matter. -/
theorem inv_of_maps_eq (st st' : St) (h : Inv st) (hc : st'.channels = st.channels) (hu : st'.users = st.users) :
    Inv st' := by
  sorry

/-- The executable check decides the invariant. -/
theorem invB_iff (st : St) : invB st = true ↔ Inv st := by
  sorry

end Girc.Proofs.InvBase
