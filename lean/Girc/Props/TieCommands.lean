import Girc.Proofs.TransCommands
/-
  Tie (TieCommands, C11 / C03): the helpers of commands.go regenerated from the Go source.  Calls of the sinks `cmd.c.Send` /
  `cmd.c.write` are collected, in call order, into the list of `Out`s the generated function returns;
  `cmd.c.MaxEventLength()` is the explicit parameter `maxEventLength`.  Each theorem states the corresponding branch of the
  model's `helperOuts` (Model/Commands.lean); `Join` / `List` are tied to `joinBatches`, which C11 is about.
-/
namespace Girc.Props.TieCommands
open Girc Girc.Model Girc.Gen

theorem tie_Commands_Join : ∀ (maxEventLength : Int) (channels : List Bytes),
    Fn.Commands_Join maxEventLength channels =
      .ok ((joinBatches (maxEventLength - 4 - 1) channels).map fun bch => Out.send (ev "JOIN" [bch])) :=
  Proofs.Trans.Commands_Join_eq
theorem tie_Commands_List : ∀ (maxEventLength : Int) (channels : List Bytes),
    Fn.Commands_List maxEventLength channels = .ok
      (if channels.isEmpty then [Out.send (ev "LIST" [])]
       else (joinBatches (maxEventLength - 4 - 1) channels).map fun bch => Out.send (ev "LIST" [bch])) :=
  Proofs.Trans.Commands_List_eq
theorem tie_Commands_Part : ∀ channels : List Bytes,
    Fn.Commands_Part channels = .ok (channels.map fun c => Out.send (ev "PART" [c])) := Proofs.Trans.Commands_Part_eq
theorem tie_Commands_Kick : ∀ channel user reason : Bytes, Fn.Commands_Kick channel user reason = .ok
    ((if reason.isEmpty then [] else [Out.send (ev "KICK" [channel, user, reason])]) ++
      [Out.send (ev "KICK" [channel, user])]) := Proofs.Trans.Commands_Kick_eq
theorem tie_Commands_Mode : ∀ (target modes : Bytes) (params : List Bytes),
    Fn.Commands_Mode target modes params = .ok [Out.send (ev "MODE" ([target, modes] ++ params))] :=
  Proofs.Trans.Commands_Mode_eq
theorem tie_Commands_Ban : ∀ channel mask : Bytes,
    Fn.Commands_Ban channel mask = .ok [Out.send (ev "MODE" [channel, b "+b", mask])] := Proofs.Trans.Commands_Ban_eq
theorem tie_Commands_Invite : ∀ (channel : Bytes) (users : List Bytes),
    Fn.Commands_Invite channel users = .ok (users.map fun u => Out.send (ev "INVITE" [u, channel])) :=
  Proofs.Trans.Commands_Invite_eq
theorem tie_Commands_Back : Fn.Commands_Back = .ok [Out.send (ev "AWAY" [])] := Proofs.Trans.Commands_Back_eq
theorem tie_Commands_Away : ∀ reason : Bytes, Fn.Commands_Away reason = .ok
    (if reason.isEmpty then [Out.send (ev "AWAY" [])] else [Out.send (ev "AWAY" [reason])]) := Proofs.Trans.Commands_Away_eq
theorem tie_Commands_Who : ∀ users : List Bytes,
    Fn.Commands_Who users = .ok (users.map fun u => Out.send (ev "WHO" [u, b "%tcuhnr,2"])) := Proofs.Trans.Commands_Who_eq
theorem tie_Commands_Whois : ∀ users : List Bytes,
    Fn.Commands_Whois users = .ok (users.map fun u => Out.send (ev "WHOIS" [u])) := Proofs.Trans.Commands_Whois_eq
theorem tie_Commands_Ping : ∀ id : Bytes, Fn.Commands_Ping id = .ok [Out.write (ev "PING" [id])] :=
  Proofs.Trans.Commands_Ping_eq
theorem tie_Commands_Pong : ∀ id : Bytes, Fn.Commands_Pong id = .ok [Out.write (ev "PONG" [id])] :=
  Proofs.Trans.Commands_Pong_eq

theorem tie_Commands_Nick : ∀ name : Bytes, Fn.Commands_Nick name = .ok [Out.send (ev "NICK" [name])] :=
  Proofs.Trans.Commands_Nick_eq
theorem tie_Commands_JoinKey : ∀ channel password : Bytes,
    Fn.Commands_JoinKey channel password = .ok [Out.send (ev "JOIN" [channel, password])] := Proofs.Trans.Commands_JoinKey_eq
theorem tie_Commands_PartMessage : ∀ channel message : Bytes,
    Fn.Commands_PartMessage channel message = .ok [Out.send (ev "PART" [channel, message])] :=
  Proofs.Trans.Commands_PartMessage_eq
theorem tie_Commands_Message : ∀ target message : Bytes,
    Fn.Commands_Message target message = .ok [Out.send (ev "PRIVMSG" [target, message])] := Proofs.Trans.Commands_Message_eq
theorem tie_Commands_Notice : ∀ target message : Bytes,
    Fn.Commands_Notice target message = .ok [Out.send (ev "NOTICE" [target, message])] := Proofs.Trans.Commands_Notice_eq
theorem tie_Commands_Action : ∀ target message : Bytes, Fn.Commands_Action target message =
    .ok [Out.send (ev "PRIVMSG" [target, [0x01] ++ b "ACTION " ++ message ++ [0x01]])] := Proofs.Trans.Commands_Action_eq
theorem tie_Commands_Topic : ∀ channel message : Bytes,
    Fn.Commands_Topic channel message = .ok [Out.send (ev "TOPIC" [channel, message])] := Proofs.Trans.Commands_Topic_eq
theorem tie_Commands_Oper : ∀ user pass : Bytes, Fn.Commands_Oper user pass = .ok [Out.send (ev "OPER" [user, pass])] :=
  Proofs.Trans.Commands_Oper_eq
theorem tie_Commands_Unban : ∀ channel mask : Bytes,
    Fn.Commands_Unban channel mask = .ok [Out.send (ev "MODE" [channel, b "-b", mask])] := Proofs.Trans.Commands_Unban_eq
/-- `SendRaw(lines…)`: every line is parsed (by the regenerated `ParseEvent`) and sent, up to the first one that does not
    parse — the model's `helperOuts … "SendRaw"` branch; the returned error is non-nil exactly when some line does not parse. -/
theorem tie_Commands_SendRaw : ∀ raw : List Bytes, Fn.Commands_SendRaw raw = .ok
    (if (raw.map parseEvent).all Option.isSome then none else some Go.GoErr.mk,
     ((raw.map parseEvent).takeWhile Option.isSome).filterMap (fun o => o.map Out.send)) := Proofs.Trans.Commands_SendRaw_eq

/-- The parameters of the events handed to the sinks, for the examples (`Out` has no decidable equality). -/
def outParams : List Out → List (List Bytes)
  | [] => []
  | .send e :: r => e.params :: outParams r
  | .write e :: r => e.params :: outParams r
  | .inject e :: r => e.params :: outParams r
  | .close :: r => outParams r

-- JOIN #a #b #c with room for 5 bytes per line: "#a,#b" then "#c"
example : (Fn.Commands_Join 10 [[0x23, 0x61], [0x23, 0x62], [0x23, 0x63]]).map outParams =
    .ok [[[0x23, 0x61, 0x2C, 0x23, 0x62]], [[0x23, 0x63]]] := by rfl
example : (Fn.Commands_Join 10 []).map outParams = .ok [] := by rfl
example : (Fn.Commands_List 10 []).map outParams = .ok [[]] := by rfl
example : (Fn.Commands_Kick [0x23] [0x6E] [0x72]).map outParams = .ok [[[0x23], [0x6E], [0x72]], [[0x23], [0x6E]]] := by rfl
example : (Fn.Commands_Ban [0x23] [0x6D]).map outParams = .ok [[[0x23], [0x2B, 0x62], [0x6D]]] := by rfl
example : (Fn.Commands_Action [0x23] [0x68]).map outParams =
    .ok [[[0x23], [0x01, 0x41, 0x43, 0x54, 0x49, 0x4F, 0x4E, 0x20, 0x68, 0x01]]] := by rfl
-- SendRaw("PING a", ":", "PING b"): the second line does not parse: one event sent, error returned
example : (Fn.Commands_SendRaw [[0x50, 0x49, 0x4E, 0x47, 0x20, 0x61], [0x3A], [0x50, 0x49, 0x4E, 0x47, 0x20, 0x62]]).map
    (fun r => (r.1.isSome, outParams r.2)) = .ok (true, [[[0x61]]]) := by rfl

end Girc.Props.TieCommands
