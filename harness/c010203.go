package main

import (
	"bytes"
	"fmt"
	"os"
	"path/filepath"
	"strings"

	"github.com/lrstanley/girc"
)

func init() {
	props["C01"] = runC01
	props["C02"] = runC02
	props["C03"] = runC03

	// serialise: impl Bytes/Len vs model, and the C03 laws on the implementation.
	runners["bytes"] = func(c *Ctx, in map[string]string) {
		e := evFromIn(in)
		hin := hexIn(in)
		out := safely(func() string { return hx(string(e.Bytes())) })
		if m := c.L.Call("bytes", evArgs(e)...); m != out {
			c.R.Mismatch("bytes", hin, out, m)
		}
		c.genCheck("bytes", hin, out, evArgs(e)...)
		ln := safely(func() string { return fmt.Sprint(e.Len()) })
		if m := c.L.Call("len", evArgs(e)...); m != ln {
			c.R.Mismatch("len", hin, ln, m)
		}
		c.genCheck("len", hin, ln, evArgs(e)...)
		if strings.HasPrefix(out, "panic") || strings.HasPrefix(ln, "panic") {
			c.R.Violation("bytes.panic", hin, out+" "+ln, "", "serialising panicked")
			return
		}
		b := e.Bytes()
		// the slice handed out belongs to the caller: serialising ANOTHER event must not change it (a line kept for logging,
		// relaying or replaying keeps its meaning)
		if keptBytes != nil && string(keptBytes) != keptString {
			c.R.Violation("bytes.aliased", hin, q(string(keptBytes)), q(keptString), "a []byte returned by an earlier Event.Bytes() call changed when another event was serialised")
		}
		keptBytes, keptString = b, string(b)
		if bytes.ContainsAny(b, "\r\n") {
			c.R.Violation("bytes.oneline", hin, out, "", "serialised event contains CR or LF: a second line can be smuggled")
		}
		if e.Len() < len(b) {
			c.R.Violation("bytes.len_ge", hin, ln, fmt.Sprint(len(b)), "Len() under-reports the serialised length")
		}
		if validFields(e) && e.Len() != len(b) {
			c.R.Violation("bytes.len_eq", hin, ln, fmt.Sprint(len(b)), "Len() differs from the serialised length for a CR/LF-free valid UTF-8 event")
		}
		// … also for an event that was measured before and has grown since, and for a by-value copy of it
		e.Params = append(e.Params, "one-more-parameter")
		cp := *e
		for _, ev := range []*girc.Event{e, &cp} {
			if b2 := ev.Bytes(); ev.Len() < len(b2) {
				c.R.Violation("bytes.len_ge_after_change", hin, fmt.Sprint(ev.Len()), fmt.Sprint(len(b2)), "Len() of an event measured earlier and extended since under-reports the serialised length")
				break
			}
		}
	}

	// parse: impl ParseEvent vs model (both the functional and the index-faithful one); never panics.
	runners["parse"] = func(c *Ctx, in map[string]string) {
		raw := in["raw"]
		hin := hexIn(in)
		out := safely(func() string { return showEvent(girc.ParseEvent(raw)) })
		if m := c.L.Call("parse", hx(raw)); m != out {
			c.R.Mismatch("parse", hin, out, m)
		}
		if m := c.L.Call("parsego", hx(raw)); m != out {
			c.R.Mismatch("parsego", hin, out, m)
		}
		c.genCheck("parse", hin, out, hx(raw))
		if strings.HasPrefix(out, "panic") {
			c.R.Violation("parse.total", hin, out, "nil or an event", "ParseEvent panicked")
		}
	}

	// roundtrip: for a well-formed event, parse(bytes(e)) gives the same command/params/source/tag values.
	runners["roundtrip"] = func(c *Ctx, in map[string]string) {
		e := evFromIn(in)
		hin := hexIn(in)
		c.run("bytes", in)
		wire := string(e.Bytes())
		c.run("parse", map[string]string{"raw": wire})
		p := girc.ParseEvent(wire)
		if p == nil {
			c.R.Violation("roundtrip.nil", hin, "nil", showEvent(e), "serialised well-formed event does not parse")
			return
		}
		// a copy of the event (what every handler is handed) is the same event
		if cp := e.Copy(); showEvent(cp) != showEvent(e) || string(cp.Bytes()) != wire {
			c.R.Violation("roundtrip.copy", hin, showEvent(cp), showEvent(e), "Event.Copy() differs from the event: a relayed or logged copy changes its meaning")
		}
		exp, got := *e, *p
		if len(exp.Tags) == 0 {
			exp.Tags = nil
		}
		if len(got.Tags) == 0 {
			got.Tags = nil
		}
		if showEvent(&got) != showEvent(&exp) {
			c.R.Violation("roundtrip.fields", hin, showEvent(&got), showEvent(&exp), "parse(serialise(e)) differs from e; wire="+q(wire))
		}
		for k := range e.Tags {
			v1, _ := e.Tags.Get(k)
			v2, ok := p.Tags.Get(k)
			if !ok || v1 != v2 {
				c.R.Violation("roundtrip.tagget", hin, q(v2), q(v1), "Tags.Get after the round trip differs for key "+q(k))
			}
		}
		// second sentence of C01: parse -> serialise -> parse is a fixed point
		p2 := girc.ParseEvent(string(p.Bytes()))
		if showEvent(p2) != showEvent(p) {
			c.R.Violation("roundtrip.reparse", hin, showEvent(p2), showEvent(p), "parse(serialise(parse(line))) differs from parse(line)")
		}
	}

	// tagapi: Tags.Set then Get returns the value given to Set; impl vs model for Set/Get/encode/decode.
	runners["tagapi"] = func(c *Ctx, in map[string]string) {
		hin := hexIn(in)
		t := girc.Tags{}
		var n int
		fmt.Sscan(in["n"], &n)
		for i := 0; i < n; i++ {
			k, v := in[fmt.Sprintf("k%d", i)], in[fmt.Sprintf("v%d", i)]
			before := encTags(t)
			err := t.Set(k, v)
			implOut := "err"
			if err == nil {
				implOut = encTags(t)
			}
			if m := c.L.Call("tagset", before, hx(k), hx(v)); m != implOut {
				c.R.Mismatch("tagset", hin, implOut, m)
			}
			if err != nil && encTags(t) != before {
				c.R.Violation("tagapi.failed_set_changed_map", hin, encTags(t), before, "a Tags.Set that returned an error changed the tags (a value stored earlier through the tag API is lost)")
			}
			c.genCheck("tagset", hin, implOut, before, hx(k), hx(v))
			if err == nil {
				got, ok := t.Get(k)
				if !ok || got != v {
					c.R.Violation("tagapi.get_set", hin, q(got), q(v), "Tags.Get does not return the value given to Tags.Set for key "+q(k))
				}
				m := c.L.Call("tagget", encTags(t), hx(k))
				if m != hx(got) && !(m == "-" && !ok) {
					c.R.Mismatch("tagget", hin, hx(got), m)
				}
				if ok {
					c.genCheck("tagget", hin, hx(got), encTags(t), hx(k))
				}
			}
			if m := c.L.Call("tagenc", hx(v)); m != hx(girc.VerifTagEncode(v)) {
				c.R.Mismatch("tagenc", hin, hx(girc.VerifTagEncode(v)), m)
			}
			if m := c.L.Call("tagdec", hx(v)); m != hx(girc.VerifTagDecode(v)) {
				c.R.Mismatch("tagdec", hin, hx(girc.VerifTagDecode(v)), m)
			}
			if m := c.L.Call("validtag", hx(k)); m != bl(girc.VerifValidTag(k)) {
				c.R.Mismatch("validtag", hin, bl(girc.VerifValidTag(k)), m)
			}
			c.genCheck("validtag", hin, bl(girc.VerifValidTag(k)), hx(k))
			if m := c.L.Call("validtagvalue", hx(v)); m != bl(girc.VerifValidTagValue(v)) {
				c.R.Mismatch("validtagvalue", hin, bl(girc.VerifValidTagValue(v)), m)
			}
			c.genCheck("validtagvalue", hin, bl(girc.VerifValidTagValue(v)), hx(v))
		}
		if m := c.L.Call("tagsbytes", encTags(t)); m != hx(string(t.Bytes())) {
			c.R.Mismatch("tagsbytes", hin, hx(string(t.Bytes())), m)
		}
		c.genCheck("tagsbytes", hin, hx(string(t.Bytes())), encTags(t))
		// whatever Set accepted survives the wire: serialise an event carrying these tags, parse the line, read every key back
		if len(t) > 0 {
			e := &girc.Event{Command: "PRIVMSG", Params: []string{"#c", "x"}, Tags: t}
			if p := girc.ParseEvent(e.String()); p == nil {
				c.R.Violation("tagapi.wire", hin, "nil", "", "an event carrying tags accepted by Tags.Set does not parse back")
			} else {
				for k := range t {
					want, _ := t.Get(k)
					got, ok := p.Tags.Get(k)
					if !ok || got != want {
						c.R.Violation("tagapi.wire", hin, fmt.Sprintf("%q -> %q (present=%v)", k, got, ok), q(want), "a tag value accepted by Tags.Set reads differently after serialising and parsing the event")
						break
					}
				}
			}
		}
	}

	// grammar: a parse tree is rendered by the Lean spec; the implementation must parse the rendering to the
	// structure the grammar assigns (Spec.meaning).
	runners["grammar"] = func(c *Ctx, in map[string]string) {
		hin := hexIn(in)
		resp := c.L.Call("spec.line", in["tags"], in["pfx"], hx(in["cmd"]), in["mids"], in["midsp"], in["trail"], in["ending"])
		parts := strings.SplitN(resp, " ", 3)
		if len(parts) != 3 {
			fatal("spec.line: bad response %q for %v", resp, in)
		}
		wf, line, meaning := parts[0] == "1", unhx(parts[1]), parts[2]
		out := safely(func() string { return showEvent(girc.ParseEvent(line)) })
		if m := c.L.Call("parse", hx(line)); m != out {
			c.R.Mismatch("parse", map[string]string{"raw": hx(line)}, out, m)
		}
		if wf && out != meaning {
			hin["rendered_line"] = hx(line)
			c.R.Violation("grammar.meaning", hin, out, meaning, "parse of a grammatical line differs from the grammar's structure; line="+q(line))
		}
		if wf {
			// tag values read through Get are the IRCv3 unescaping
			if p := girc.ParseEvent(line); p != nil {
				for k, raw := range p.Tags {
					got, _ := p.Tags.Get(k)
					if want := unhx(c.L.Call("spec.unescape", hx(raw))); want != got {
						c.R.Violation("grammar.unescape", hin, q(got), q(want), "Tags.Get differs from the IRCv3 unescaping for key "+q(k))
					}
				}
			}
		}
		c.R.Dist[fmt.Sprintf("grammar.wf=%v", wf)]++
	}
}

var (
	keptBytes  []byte
	keptString string
)

func nontrivialEvent(e *girc.Event) bool {
	return len(e.Params) > 0 || e.Source != nil || len(e.Tags) > 0
}

func runC01(c *Ctx) {
	r := c.R
	r.Rule = "well-formed events by construction (command token; middles non-empty, SPACE-free, not ':'-leading; arbitrary valid-UTF-8 final parameter incl. empty / " +
		"space-bearing / colon-leading / containing ' :'; every combination of source parts; tags through Tags.Set with the five escapable characters) -> " +
		"serialise, parse, compare fields and Tags.Get; then parse->serialise->parse fixed point; Tags.Set/Get sequences incl. the 4094-byte boundary; " +
		"non-trivial = has params, source or tags; distinct = distinct serialised line"
	n := 5000 * c.Scale
	for i := 0; i < n; i++ {
		e := c.Rng.wfEvent()
		in := evIn(e)
		c.run("roundtrip", in)
		r.Count(string(e.Bytes()), nontrivialEvent(e), fmt.Sprintf("params=%d", min(len(e.Params), 5)), fmt.Sprintf("src=%v", e.Source != nil), fmt.Sprintf("tags=%d", len(e.Tags)))
		if i < 3 {
			r.Sample(map[string]string{"event": showEventReadable(e), "wire": q(string(e.Bytes()))})
		}
	}
	// the same trip through a real connection: runs of serialised events written to the client's socket, neighbouring
	// lines from senders that are the same identity in another spelling; what the handlers receive is the parse of the line
	for i := 0; i < 6*c.Scale; i++ {
		in := map[string]string{}
		k := 0
		for j := 0; j < 5; j++ {
			e := c.Rng.wfEvent()
			if e.Command == "PING" || strings.HasPrefix(e.Command, "CLIENT_") || e.Command == "ERROR" {
				continue
			}
			for _, sp := range []func(string) string{func(x string) string { return x }, strings.ToUpper, strings.ToLower, func(x string) string { return x }} {
				ee := e.Copy()
				if ee.Source != nil {
					ee.Source.Name = sp(ee.Source.Name)
				}
				in[fmt.Sprintf("l%d", k)] = string(ee.Bytes())
				k++
			}
		}
		// … and one event whose tag section makes the line longer than any read buffer the client may use
		long := &girc.Event{Command: "PRIVMSG", Params: []string{"#c", strings.Repeat("long text ", 30+i)}, Source: &girc.Source{Name: "n", Ident: "u", Host: "h"}, Tags: girc.Tags{}}
		if long.Tags.Set("+example/big", strings.Repeat("v", 3900+c.Rng.Intn(150))) == nil {
			in[fmt.Sprintf("l%d", k)] = string(long.Bytes())
			k++
			in[fmt.Sprintf("l%d", k)] = ":n!u@h PRIVMSG #c :the line after the long one"
			k++
		}
		in["n"] = fmt.Sprint(k)
		c.run("wireparse", in)
		r.Count("wire"+fmt.Sprint(in), true, "wire-trip")
		r.Traces++
	}
	for i := 0; i < 1500*c.Scale; i++ {
		in := map[string]string{}
		k := 1 + c.Rng.Intn(4)
		in["n"] = fmt.Sprint(k)
		for j := 0; j < k; j++ {
			in[fmt.Sprintf("k%d", j)] = c.Rng.tagKey()
			in[fmt.Sprintf("v%d", j)] = c.Rng.tagValue()
			if c.Rng.Chance(5) {
				in[fmt.Sprintf("k%d", j)] = c.Rng.From("a+ =;\x00é", 1+c.Rng.Intn(3))
			}
		}
		c.run("tagapi", in)
		r.Count("tagapi"+fmt.Sprint(in), true, "tagapi")
	}
	// the tag-section limit: values sized so the section lands on 4090..4096 bytes
	for total := 4088; total <= 4097; total++ {
		for _, second := range []string{"z", "z=y", "zz=yy"} {
			first := total - 1 - 2 - 1 - len(second) // "@a=" + x*first + ";" + second
			in := map[string]string{"n": "2", "k0": "a", "v0": strings.Repeat("x", first)}
			kv := strings.SplitN(second, "=", 2)
			in["k1"] = kv[0]
			if len(kv) == 2 {
				in["v1"] = kv[1]
			}
			c.run("tagapi", in)
			t := girc.Tags{}
			_ = t.Set(in["k0"], in["v0"])
			if t.Set(in["k1"], in["v1"]) == nil {
				c.run("roundtrip", evIn(&girc.Event{Command: "PRIVMSG", Params: []string{"#c", "hi"}, Tags: t}))
			}
			r.Count(fmt.Sprintf("limit%d%s", total, second), true, "tag-limit")
		}
		// the same boundary reached by RE-setting a key that is already present (valueless, with a value, or the only
		// tag): whatever Set accepted must survive serialisation
		for _, m := range []int{1, 3} {
			histories := [][][2]string{
				{{"a", strings.Repeat("x", total-5-m)}, {"z", ""}, {"z", strings.Repeat("y", m)}},
				{{"a", strings.Repeat("x", total-5-m)}, {"z", "q"}, {"z", strings.Repeat("y", m)}},
				{{"a", strings.Repeat("x", total-5-m)}, {"z", strings.Repeat("y", m)}, {"a", strings.Repeat("w", total-5-m)}},
				{{"a", ""}, {"a", strings.Repeat("x", total-2)}},
				{{"a", "b"}, {"z", ""}, {"a", strings.Repeat("x", total-4)}},
			}
			for hi, h := range histories {
				in := map[string]string{"n": fmt.Sprint(len(h))}
				t := girc.Tags{}
				accepted := true
				for j, kv := range h {
					in[fmt.Sprintf("k%d", j)], in[fmt.Sprintf("v%d", j)] = kv[0], kv[1]
					if t.Set(kv[0], kv[1]) != nil {
						accepted = false
					}
				}
				c.run("tagapi", in)
				if accepted {
					c.run("roundtrip", evIn(&girc.Event{Command: "PRIVMSG", Params: []string{"#c", "hi"}, Tags: t}))
				}
				r.Count(fmt.Sprintf("relimit%d.%d.%d", total, m, hi), true, "tag-limit-reset")
			}
		}
	}
}

func showEventReadable(e *girc.Event) string {
	return fmt.Sprintf("%+v src=%+v tags=%v", []string{e.Command, fmt.Sprintf("%q", e.Params)}, e.Source, e.Tags)
}

func (r *RNG) lineTree() map[string]string {
	in := map[string]string{"tags": "-", "pfx": "-", "trail": "-"}
	one := []byte{1}
	zero := []byte{0}
	if r.Chance(40) {
		var flat []string
		for i := 1 + r.Intn(3); i > 0; i-- {
			k := r.tagKey()
			if r.Chance(15) && len(flat) >= 3 {
				k = flat[0] // duplicate key: last wins
			}
			if r.Chance(25) {
				flat = append(flat, k, string(zero), "")
			} else {
				var v strings.Builder
				for j := r.Intn(6); j > 0; j-- {
					v.WriteString(r.Pick([]string{"a", "=", ":", "\\:", "\\s", "\\\\", "\\r", "\\n", "é", "/", "\t"}))
				}
				flat = append(flat, k, string(one), v.String())
			}
		}
		in["tags"] = hxList(flat)
	}
	if r.Chance(60) {
		p := []string{r.srcPart(), string(zero), "", string(zero), ""}
		if r.Bool() {
			p[1], p[2] = string(one), r.srcPart()
		}
		if r.Bool() {
			p[3], p[4] = string(one), r.srcPart()
		}
		in["pfx"] = hxList(p)
	}
	cmd := r.command()
	if r.Chance(30) {
		cmd = strings.ToLower(cmd)
	}
	if r.Chance(10) {
		cmd = r.From("aBcD", 2+r.Intn(3))
	}
	in["cmd"] = cmd
	nm := r.Intn(5)
	if r.Chance(8) {
		nm = 15
	}
	var mids, sps []string
	for i := 0; i < nm; i++ {
		m := r.middle()
		if r.Chance(20) {
			m = r.Pick([]string{"a\tb", "x y", "CHANLIMIT=#:25", "a:b", "\x0bv", "\u0085", "a\fb"})
		}
		mids = append(mids, m)
		sp := 0
		if r.Chance(30) {
			sp = 1 + r.Intn(3)
		}
		sps = append(sps, string([]byte{byte(sp)}))
	}
	in["mids"], in["midsp"] = hxList(mids), hxList(sps)
	if r.Chance(60) {
		t := r.validText(8, true)
		if r.Chance(15) {
			t = r.Pick([]string{"", ":", " ", "a :b", "\xff\xfe raw", "tab\there", " lead", "trail "})
		}
		sp := 0
		if r.Chance(25) {
			sp = 1 + r.Intn(2)
		}
		in["trail"] = hxList([]string{string([]byte{byte(sp)}), t})
	}
	in["ending"] = fmt.Sprint(r.Intn(3))
	return in
}

func runC02(c *Ctx) {
	runC02Wire(c)
	r := c.R
	r.Rule = "(i) random parse trees of the RFC1459/2812+IRCv3 grammar (0-15 params, SPACE runs of length 1-4 between params, optional trailing, any subset of tags/source, " +
		"letter/numeric commands in any case, LF/CRLF/no ending; middles containing TAB, NBSP, U+0085, ':' inside) rendered by the Lean spec and parsed by the implementation, " +
		"compared with Spec.meaning; (ii) totality stream: raw random bytes, byte mutations of rendered lines, EXHAUSTIVE strings up to length 3 (thorough: 4) over {@ : SPACE a CR LF ; = \\}, " +
		"the repository fuzz corpus and ircdocs lines; (iii) server-time values (valid instants over years 0000-9999 incl. month ends and leap days, and malformed variants: comma/absent/long fraction, one-digit hour, lower case, missing Z, trailing bytes, leap second, hour 24) parsed by the implementation and by the Lean model of time.Parse for the library's layout; non-trivial = line has a SPACE; distinct = distinct line"
	n := 5000 * c.Scale
	var rendered []string
	for i := 0; i < n; i++ {
		in := c.Rng.lineTree()
		c.run("grammar", in)
		resp := c.L.Call("spec.line", in["tags"], in["pfx"], hx(in["cmd"]), in["mids"], in["midsp"], in["trail"], in["ending"])
		line := unhx(strings.SplitN(resp, " ", 3)[1])
		r.Count(line, strings.Contains(line, " "), "grammar")
		if len(rendered) < 400 {
			rendered = append(rendered, line)
		}
		if i < 3 {
			r.Sample(map[string]string{"line": q(line), "parsed": showEventReadable(girc.ParseEvent(line))})
		}
	}
	runServerTime(c)
	one := func(raw, cls string) {
		c.run("parse", map[string]string{"raw": raw})
		r.Count(raw, strings.Contains(raw, " "), cls)
	}
	// exhaustive small
	alpha := "@: a\r\n;=\\"
	maxLen := 3
	if c.Tier == "thorough" {
		maxLen = 5
	}
	cur := []string{""}
	for l := 0; l < maxLen; l++ {
		var next []string
		for _, w := range cur {
			for j := 0; j < len(alpha); j++ {
				s := w + string(alpha[j])
				next = append(next, s)
				one(s, "exhaustive-small")
			}
		}
		cur = next
	}
	r.Exhaustive = true
	// mutations
	for i := 0; i < 3000*c.Scale; i++ {
		s := []byte(rendered[c.Rng.Intn(len(rendered))])
		for k := 1 + c.Rng.Intn(3); k > 0 && len(s) > 0; k-- {
			j := c.Rng.Intn(len(s))
			switch c.Rng.Intn(4) {
			case 0:
				s[j] = byte(c.Rng.Next())
			case 1:
				s = append(s[:j], s[j+1:]...)
			case 2:
				s = append(s[:j], append([]byte(c.Rng.Pick([]string{" ", ":", "@", " :", "\r", "\n", ";", "=", "!"})), s[j:]...)...)
			default:
				s = s[:j]
			}
		}
		one(string(s), "mutation")
	}
	for i := 0; i < 2000*c.Scale; i++ {
		one(c.Rng.RawBytes(c.Rng.Intn(12)), "random-bytes")
	}
	// repository corpora
	for _, s := range repoCorpus() {
		one(s, "repo-corpus")
	}
}

// repoCorpus: the go-fuzz corpus files for ParseEvent and lines from the test tables.
func repoCorpus() []string {
	var out []string
	files, _ := filepath.Glob(filepath.Join(repoDir, "testdata", "fuzz", "FuzzParseEvent", "*"))
	for _, f := range files {
		b, err := os.ReadFile(f)
		if err != nil {
			continue
		}
		for _, l := range strings.Split(string(b), "\n") {
			if strings.HasPrefix(l, "string(") {
				var s string
				if _, err := fmt.Sscanf(l, "string(%q)", &s); err == nil {
					out = append(out, s)
				}
			}
		}
	}
	if b, err := os.ReadFile(filepath.Join(repoDir, "event_test.go")); err == nil {
		for _, l := range strings.Split(string(b), "\n") {
			if i := strings.Index(l, "\""); i >= 0 {
				var s string
				if _, err := fmt.Sscanf(strings.TrimRight(strings.TrimSpace(l[i:]), ",}"), "%q", &s); err == nil && len(s) > 3 {
					out = append(out, s)
				}
			}
		}
	}
	return out
}

func runC03(c *Ctx) {
	r := c.R
	r.Rule = "arbitrary events (any bytes in command, params, source parts, tag keys/values: CR, LF, CRLF, NUL, invalid and truncated UTF-8, embedded 'QUIT' commands; nil, empty and populated tag maps) " +
		"-> Bytes()/Len() vs model and the laws (no CR/LF; Len >= len; Len == len for CR/LF-free valid UTF-8); well-formed events as in C01; " +
		"non-trivial = some field contains CR, LF, NUL or invalid UTF-8, or tags non-nil; distinct = distinct (event encoding)"
	for i := 0; i < 6000*c.Scale; i++ {
		e := c.Rng.anyEvent()
		in := evIn(e)
		c.run("bytes", in)
		r.Count(fmt.Sprint(evArgs(e)), !validFields(e) || e.Tags != nil, fmt.Sprintf("valid=%v", validFields(e)), fmt.Sprintf("tagsnil=%v", e.Tags == nil))
		if i < 3 {
			r.Sample(map[string]string{"event": showEventReadable(e), "wire": q(string(e.Bytes())), "len": fmt.Sprint(e.Len())})
		}
	}
	for i := 0; i < 2000*c.Scale; i++ {
		e := c.Rng.wfEvent()
		c.run("bytes", evIn(e))
		r.Count(fmt.Sprint(evArgs(e)), e.Tags != nil, "wf")
	}
	// the F3 regression witness: non-nil empty tag map
	c.run("bytes", evIn(&girc.Event{Command: "X", Tags: girc.Tags{}}))
	r.Count("F3", true, "witness")
	runC03Helpers(c)
	runC03SlowPeer(c)
	runC03SendWire(c)
	runC03Preamble(c)
}

func min(a, b int) int {
	if a < b {
		return a
	}
	return b
}
