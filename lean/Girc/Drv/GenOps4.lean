import Girc.Drv.GenOps3
import Girc.Drv.StsOps
import Girc.Model.Phase4Helpers
import Girc.Model.Split
import Girc.Model.StsTime
/-
  Driver ops `gen.<GoName>` for the phase-4 translated functions (the event side of the splitter, `sliceInsert`, the
  remaining value-level helpers of cap_tags.go / event.go / ctcp.go, the STS clock predicates), each next to a model op
  that prints the same format from the hand-written model where none existed.
-/
namespace Girc.Drv
open Girc Girc.Model Girc.Gen

def showRemove (r : Bool × Option Tags) : String := bl r.1 ++ " " ++ showTags r.2

def showST (s : StrictTransport) : String :=
  s!"{s.upgradePort} {s.persistenceDuration} {bl s.preload} {bl s.beginUpgrade} {s.persistenceReceived} {s.lastFailed}"

def handleGen4 (op : String) (args : List String) : Option String :=
  match op, args with
  -- event.go: (*Event).split — mirrors `evsplit` (same arguments; `bad` = the words url.Parse rejects)
  | "gen.Event.split", [tg, sr, c, p, ml, bad] => do
      let e ← argEvent tg sr c p; let ml ← ml.toInt?; let bad ← argList bad
      pure (genShow (fun l => ";".intercalate (l.map showOptEvent)) (Fn.Event_split (fun x => !bad.contains x) (some e) ml))
  | "gen.Event.split", ["nil", ml] => do
      let ml ← ml.toInt?
      pure (genShow (fun l => ";".intercalate (l.map showOptEvent)) (Fn.Event_split (fun _ => true) none ml))
  -- format.go: sliceInsert(input, i, v...) with `spare` = the contents of input's spare capacity
  | "gen.sliceInsert", [spare, input, i, v] => do
      let spare ← argList spare; let input ← argList input; let i ← i.toInt?; let v ← argList v
      pure (genShow listHx (Fn.sliceInsert spare input i v))
  | "sliceinsert", [input, i, v] => do
      let input ← argList input; let i ← i.toInt?; let v ← argList v
      pure (genShow listHx (Model.sliceInsert input i v))
  -- event.go: Copy (value level), Equals, String
  | "gen.Event.Copy", [t, s, c, p] => do let e ← argEvent t s c p; pure (genShow showOptEvent (Fn.Event_Copy (some e)))
  | "gen.Event.Copy", ["nil"] => pure (genShow showOptEvent (Fn.Event_Copy none))
  | "gen.Source.Copy", [s] => do let src ← argSource s; pure (genShow showSource (Fn.Source_Copy src))
  | "gen.Event.Equals", [t, s, c, p, t2, s2, c2, p2] => do
      let e ← argEvent t s c p; let ev ← argEvent t2 s2 c2 p2
      pure (genShow bl (Fn.Event_Equals (some e) (some ev)))
  | "eventequals", [t, s, c, p, t2, s2, c2, p2] => do
      let e ← argEvent t s c p; let ev ← argEvent t2 s2 c2 p2
      pure (bl (eventEquals e ev))
  | "gen.Event.String", [t, s, c, p] => do let e ← argEvent t s c p; pure (genShow hx (Fn.Event_String (some e)))   -- bytes
  -- cap_tags.go
  | "gen.Tags.Count", [t] => do let tg ← argTags t; pure (genShow toString (Fn.Tags_Count tg))
  | "tagcount", [t] => do let tg ← argTags t; pure (toString (tagsCount tg))
  | "gen.Tags.Keys", [t] => do let tg ← argTags t; pure (genShow listHx (Fn.Tags_Keys tg))
  | "tagkeys", [t] => do let tg ← argTags t; pure (listHx (Go.mapKeys tg))
  | "gen.Tags.Equals", [t, tt] => do let a ← argTags t; let b ← argTags tt; pure (genShow bl (Fn.Tags_Equals a b))
  | "tagsequals", [t, tt] => do let a ← argTags t; let b ← argTags tt; pure (bl (tagsEquals a b))
  | "gen.Tags.Remove", [t, k] => do let tg ← argTags t; let k ← arg k; pure (genShow showRemove (Fn.Tags_Remove tg k))
  | "tagremove", [t, k] => do let tg ← argTags t; let k ← arg k; pure (showRemove (tagsRemove tg k))
  -- ctcp.go
  | "gen.EncodeCTCP", [c, t] => do                                                               -- ctcpenc
      let c ← arg c; let t ← arg t
      pure (genShow hx (Fn.EncodeCTCP (some { source := none, command := c, text := t, reply := false })))
  | "gen.EncodeCTCP", ["nil"] => pure (genShow hx (Fn.EncodeCTCP none))
  | "gen.CTCP.parseCMD", [c] => do let c ← arg c; pure (genShow hx (Fn.CTCP_parseCMD c))
  | "ctcpparsecmd", [c] => do let c ← arg c; pure (hx (ctcpParseCmd c))
  -- state.go: the STS clock predicates (decimal integers; times in nanoseconds)
  | "gen.strictTransport.expired", [now, dur, recv] => do                                         -- sts.expired
      pure (genShow bl (Fn.strictTransport_expired (← now.toInt?)
        (some { persistenceDuration := ← dur.toInt?, persistenceReceived := ← recv.toInt? })))
  | "gen.strictTransport.enabled", [port] => do
      pure (genShow bl (Fn.strictTransport_enabled (some { upgradePort := ← port.toInt? })))
  | "sts.enabled", [port] => do pure (bl (Sts.enabled { upgradePort := ← port.toInt? }))
  | "gen.strictTransport.reset", [port, dur, preload, begin, recv, lf] => do
      let port ← port.toInt?; let dur ← dur.toInt?; let recv ← recv.toInt?; let lf ← lf.toInt?
      let st : StrictTransport := ⟨begin = "1", port, dur, recv, preload = "1", lf⟩
      pure (genShow (showOptP showST) (Fn.strictTransport_reset (some st)))
  | "sts.reset", [port, dur, preload, begin] => do
      let port ← port.toInt?; let dur ← dur.toInt?
      let s := Sts.reset ⟨begin = "1", port, dur, preload = "1"⟩
      pure s!"{s.upgradePort} {s.persistenceDuration} {bl s.preload} {bl s.beginUpgrade}"
  | _, _ => none

end Girc.Drv
