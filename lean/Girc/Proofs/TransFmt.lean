import Girc.Proofs.TransBase
import Girc.Proofs.TransTagsBytes
import Girc.Proofs.TransModes
import Girc.Model.Format
/-
  Translator equivalence, format.go: TrimFmt (and, below, Fmt).
-/
set_option linter.unusedSimpArgs false
namespace Girc.Proofs.Trans
open Girc Girc.Model Girc.Go Girc.Gen

/-! ### TrimFmt

`for color := range fmtColors` / `for code := range fmtCodes` range over PACKAGE-LEVEL maps: the order in which Go
visits the keys is an explicit parameter of the generated function (`fmtColors_order_`, `fmtCodes_order_`), and the
theorem holds for every pair of orders (the model `trimFmt` is parametrised by the order as well). -/

theorem replaceAllFuel_nil (old : Bytes) : ∀ (n : Nat) (s : Bytes), replaceAllFuel old [] n s = removeAllFuel old n s
  | 0, _ => rfl
  | _ + 1, [] => rfl
  | n + 1, b :: rest => by
    unfold replaceAllFuel removeAllFuel
    rw [replaceAllFuel_nil old n, replaceAllFuel_nil old n]
    rfl

theorem replaceAll_token (s name : Bytes) :
    replaceAll s ((strOfByte 0x7B ++ name) ++ strOfByte 0x7D) [] = .ok (removeAll (token name) s) := by
  have h1 : strOfByte 0x7B = [LBRACE] := by decide
  have h2 : strOfByte 0x7D = [RBRACE] := by decide
  unfold replaceAll removeAll token
  rw [h1, h2]
  simp [replaceAllFuel_nil]

theorem TrimFmt_loop1_eq : ∀ (fuel : Nat) (ks : List Bytes) (text : Bytes), ks.length < fuel →
    Fn.TrimFmt_loop1 fuel ks text = .ok (.done (trimFmt ks text))
  | 0, _, _, h => by omega
  | fuel + 1, [], text, _ => by simp [Fn.TrimFmt_loop1, trimFmt, pure, Except.pure]
  | fuel + 1, k :: ks, text, h => by
    unfold Fn.TrimFmt_loop1
    simp only [replaceAll_token, bind, Except.bind]
    rw [TrimFmt_loop1_eq fuel ks _ (by simp at h; omega)]
    simp [trimFmt]

theorem TrimFmt_loop2_eq : ∀ (fuel : Nat) (ks : List Bytes) (text : Bytes), ks.length < fuel →
    Fn.TrimFmt_loop2 fuel ks text = .ok (.done (trimFmt ks text))
  | 0, _, _, h => by omega
  | fuel + 1, [], text, _ => by simp [Fn.TrimFmt_loop2, trimFmt, pure, Except.pure]
  | fuel + 1, k :: ks, text, h => by
    unfold Fn.TrimFmt_loop2
    simp only [replaceAll_token, bind, Except.bind]
    rw [TrimFmt_loop2_eq fuel ks _ (by simp at h; omega)]
    simp [trimFmt]

theorem TrimFmt_eq (o1 o2 : List Bytes) (text : Bytes) : Fn.TrimFmt o1 o2 text = .ok (trimFmt (o1 ++ o2) text) := by
  unfold Fn.TrimFmt
  simp only [TrimFmt_loop1_eq (o1.length + 1) o1 text (by omega), TrimFmt_loop2_eq (o2.length + 1) o2 _ (by omega),
    bind, Except.bind, pure, Except.pure]
  simp [trimFmt]

/-- The key tables the translator regenerates hold exactly the documented names: any order Go may visit the two maps
    in is a permutation of the model's `tokenNames`. -/
theorem fmt_colors_keys : (Fn.fmtColors.map (·.1)).Perm (Spec.colors.map (·.1)) := by decide
theorem fmt_codes_keys : (Fn.fmtCodes.map (·.1)).Perm (Spec.codes.map (·.1)) := by decide

theorem TrimFmt_orders (o1 o2 : List Bytes) (h1 : o1.Perm (Fn.fmtColors.map (·.1))) (h2 : o2.Perm (Fn.fmtCodes.map (·.1))) :
    (o1 ++ o2).Perm tokenNames :=
  List.Perm.append (h1.trans fmt_colors_keys) (h2.trans fmt_codes_keys)

/-! ### Fmt: the two tables -/

theorem lookup_map_val {β γ : Type} (f : β → γ) (k : Bytes) : ∀ l : List (Bytes × β),
    List.lookup k (l.map (fun p => (p.1, f p.2))) = (List.lookup k l).map f
  | [] => rfl
  | (a, b) :: l => by
    simp only [List.map_cons, List.lookup_cons]
    cases k == a <;> simp [lookup_map_val f k l]

theorem lookup_mem {β : Type} (k : Bytes) (v : β) : ∀ l : List (Bytes × β), List.lookup k l = some v → (k, v) ∈ l
  | [], h => by simp at h
  | (a, b) :: l, h => by
    simp only [List.lookup_cons] at h
    by_cases hk : k = a
    · subst hk; simp at h; subst h; simp
    · have : (k == a) = false := by simp [hk]
      simp only [this] at h
      exact List.mem_cons_of_mem _ (lookup_mem k v l h)

theorem fmtColors_perm : (Fn.fmtColors.map (fun p => (p.1, p.2.toNat))).Perm Spec.colors := by decide
theorem fmtColors_nodup : ((Fn.fmtColors.map (fun p => (p.1, p.2.toNat))).map (·.1)).Nodup := by decide
theorem fmtCodes_perm : Fn.fmtCodes.Perm Spec.codes := by decide
theorem fmtCodes_nodup : (Fn.fmtCodes.map (·.1)).Nodup := by decide
theorem fmtColors_digits : Fn.fmtColors.all (fun p => fmtD2 p.2 == twoDigits p.2.toNat) = true := by decide

theorem colors_lookup (k : Bytes) : (List.lookup k Fn.fmtColors).map Int.toNat = colorOf k := by
  unfold colorOf
  rw [← lookup_map_val Int.toNat k Fn.fmtColors]
  exact lookup_perm fmtColors_perm fmtColors_nodup k

theorem codes_lookup (k : Bytes) : List.lookup k Fn.fmtCodes = codeOf k :=
  lookup_perm fmtCodes_perm fmtCodes_nodup k

/-- `if color, ok := fmtColors[k]; ok { … fmt.Sprintf("%02d", color) }` against the model's `colorOf` / `twoDigits`. -/
theorem color_go (k : Bytes) :
    (pmHas Fn.fmtColors k, fmtD2 (pmGetI Fn.fmtColors k)) =
      (match colorOf k with
       | some c => (true, twoDigits c)
       | none => (false, fmtD2 0)) := by
  rw [← colors_lookup k]
  unfold pmHas pmGetI
  cases h : List.lookup k Fn.fmtColors with
  | none => rfl
  | some v =>
    have hm := lookup_mem k v _ h
    have hd := List.all_eq_true.mp fmtColors_digits (k, v) hm
    simp at hd
    simp [hd]

theorem code_go (k : Bytes) : (pmHas Fn.fmtCodes k, pmGetS Fn.fmtCodes k) = ((codeOf k).isSome, (codeOf k).getD []) := by
  unfold pmHas pmGetS; rw [codes_lookup]

/-! ### Fmt: the scan -/

theorem ok_bind' {α β : Type} (a : α) (f : α → Except Fault β) : (Except.ok a >>= f) = f a := rfl


theorem atI_mid (A : Bytes) (b : Byte) (C : Bytes) : atI (A ++ b :: C) (A.length : Int) = .ok b :=
  ParseTotal.atI_nat _ A.length b (by simp)

theorem slice_pre (A C : Bytes) : sliceI (A ++ C) 0 (A.length : Int) = .ok A := by
  have := sliceI_to (A ++ C) A.length (by simp)
  simpa using this

theorem slice_suf (A C : Bytes) (n : Int) (hn : n = A.length) : sliceI (A ++ C) n (len (A ++ C)) = .ok C := by
  have := sliceI_int_end (A ++ C) n A.length hn (by simp)
  simpa using this

theorem slice_mid (A B C : Bytes) (lo hi : Int) (hlo : lo = A.length) (hhi : hi = (A.length + B.length : Nat)) :
    sliceI (A ++ B ++ C) lo hi = .ok B := by
  have := sliceI_int (A ++ B ++ C) lo hi A.length (A.length + B.length) hlo hhi (by omega) (by simp)
  rw [this]
  simp

/-- The consumed prefix of `text` for a scanner state. -/
def fmtPend : Option Bytes → Bytes
  | none => []
  | some p => LBRACE :: p

/-- The value of the Go variable `last` for a scanner state (`out` = the text left of the pending brace). -/
def fmtLast (out : Bytes) : Option Bytes → Int
  | none => -1
  | some _ => out.length

theorem inner_cond : ∀ b : UInt8,
    ((b != 0x2C) && (decide (b < 0x41) || decide (b > 0x5A)) && (decide (b < 0x61) || decide (b > 0x7A))) = !fmtInner b := by
  decide +kernel

/-- The replacement for a (lower-cased, comma-split) token: the tail of the model's `fmtRepl`. -/
def replOf (code sec : Bytes) : Bytes :=
  let repl := match colorOf code with
    | some c => 0x03 :: twoDigits c
    | none => []
  let repl := if !repl.isEmpty && !sec.isEmpty then
      match colorOf sec with
      | some c => repl ++ COMMA :: twoDigits c
      | none => repl
    else repl
  if repl.isEmpty then (codeOf code).getD [] else repl

theorem fmtRepl_replOf (p : Bytes) :
    fmtRepl p = (match indexOf COMMA (toLowerAscii p) with
                 | some com => replOf ((toLowerAscii p).take com) ((toLowerAscii p).drop (com + 1))
                 | none => replOf (toLowerAscii p) []) := by
  unfold fmtRepl replOf
  simp only []
  cases indexOf COMMA (toLowerAscii p) <;> rfl

theorem pmHas_colors (k : Bytes) : pmHas Fn.fmtColors k = (colorOf k).isSome := by
  have := congrArg Prod.fst (color_go k)
  cases h : colorOf k <;> simp [h] at this ⊢ <;> exact this

theorem fmtD2_colors (k : Bytes) (c : Nat) (h : colorOf k = some c) : fmtD2 (pmGetI Fn.fmtColors k) = twoDigits c := by
  have := congrArg Prod.snd (color_go k)
  simpa [h] using this

theorem pmHas_codes (k : Bytes) : pmHas Fn.fmtCodes k = (codeOf k).isSome := congrArg Prod.fst (code_go k)
theorem pmGetS_codes (k : Bytes) : pmGetS Fn.fmtCodes k = (codeOf k).getD [] := congrArg Prod.snd (code_go k)

theorem twoDigits_ne (c : Nat) : (0x03 :: twoDigits c != ([] : Bytes)) = true := rfl

theorem Fmt_loop1_eq : ∀ (fuel : Nat) (out : Bytes) (pending : Option Bytes) (rest : Bytes), rest.length < fuel →
    ∃ L, Fn.Fmt_loop1 fuel (out ++ fmtPend pending ++ rest) (fmtLast out pending)
        ((out ++ fmtPend pending).length : Int) = .ok (.done (out ++ fmtScan rest pending, L))
  | 0, _, _, _, h => by omega
  | fuel + 1, out, pending, [], _ => by
    unfold Fn.Fmt_loop1
    have hc : decide (((out ++ fmtPend pending).length : Int) < len (out ++ fmtPend pending ++ [])) = false := by
      apply decide_eq_false; simp [len]
    refine ⟨fmtLast out pending, ?_⟩
    simp only [hc, Bool.not_false, if_true, pure, Except.pure]
    cases pending <;> simp [fmtPend, fmtScan]
  | fuel + 1, out, pending, b :: rest, hf => by
    unfold Fn.Fmt_loop1
    have hfr : rest.length < fuel := by simp at hf; omega
    generalize hA : out ++ fmtPend pending = A
    have hc : decide ((A.length : Int) < len (A ++ b :: rest)) = true := by
      apply decide_eq_true; simp [len]; omega
    have hat := atI_mid A b rest
    extract_lets text last0 i0 lastB iNext sec0 lastM jpK jpR jpEnd
    have hjpEnd : ∀ (l i : Int), jpEnd () l i = Fn.Fmt_loop1 fuel text l (i + 1) := fun _ _ => rfl
    simp only [text, i0, hc, hat, ok_bind', Bool.not_true, Bool.false_eq_true, if_false]
    by_cases hL : b = LBRACE
    · subst hL
      have c1 : (LBRACE == (0x7B : UInt8)) = true := by decide
      simp only [c1, if_true, lastB, iNext, i0]
      obtain ⟨L, ih⟩ := Fmt_loop1_eq fuel A (some []) rest hfr
      refine ⟨L, ?_⟩
      have hs : out ++ fmtScan (LBRACE :: rest) pending = A ++ fmtScan rest (some []) := by
        rw [← hA]; cases pending <;> simp [fmtScan, fmtPend]
      have ht : A ++ LBRACE :: rest = A ++ fmtPend (some []) ++ rest := by simp [fmtPend]
      have hi : (A.length : Int) + 1 = ((A ++ fmtPend (some [])).length : Int) := by simp [fmtPend]
      rw [hs, ht, hi]
      exact ih
    · have c1 : (b == (0x7B : UInt8)) = false := by simp; exact hL
      have hsL : ∀ pd, fmtScan (b :: rest) pd = (match pd with
          | some p => if b = RBRACE then fmtRepl p ++ fmtScan rest none
                      else if fmtInner b then fmtScan rest (some (p ++ [b]))
                      else LBRACE :: p ++ b :: fmtScan rest none
          | none => b :: fmtScan rest none) := by
        intro pd; cases pd <;> simp [fmtScan, hL]
      simp only [c1, Bool.false_eq_true, if_false]
      cases pending with
      | none =>
        have hA' : A = out := by rw [← hA]; simp [fmtPend]
        subst hA'
        have c2 : decide (last0 > -1) = false := by simp [last0, fmtLast]
        simp only [c2, Bool.and_false, Bool.false_eq_true, if_false, hjpEnd, text, i0, last0, fmtLast]
        obtain ⟨L, ih⟩ := Fmt_loop1_eq fuel (A ++ [b]) none rest hfr
        refine ⟨L, ?_⟩
        rw [hsL none]
        have ht : A ++ b :: rest = A ++ [b] ++ fmtPend none ++ rest := by simp [fmtPend]
        have hi : (A.length : Int) + 1 = ((A ++ [b] ++ fmtPend none).length : Int) := by simp [fmtPend]
        rw [ht, hi]
        simpa [fmtLast, List.append_assoc] using ih
      | some p =>
        have hA' : A = out ++ LBRACE :: p := by rw [← hA]; simp [fmtPend]
        have c2 : decide (last0 > -1) = true := by simp [last0, fmtLast]; omega
        simp only [c2, Bool.and_true, if_true]
        rw [hsL (some p)]
        by_cases hR : b = RBRACE
        · -- the token is complete: compute the replacement, continue after it
          subst hR
          have c3 : (RBRACE == (0x7D : UInt8)) = true := by decide
          have hjpK : ∀ R : Bytes, jpK () R =
              Fn.Fmt_loop1 fuel (out ++ R ++ fmtPend none ++ rest) (fmtLast (out ++ R) none)
                ((out ++ R ++ fmtPend none).length : Int) := by
            intro R
            have s1 : sliceI text 0 last0 = .ok out := by
              have := slice_pre out (LBRACE :: p ++ RBRACE :: rest)
              simpa [text, last0, fmtLast, hA', List.append_assoc] using this
            have s2 : sliceI text (i0 + 1) (len text) = .ok rest := by
              have := slice_suf (A ++ [RBRACE]) rest (i0 + 1) (by simp [i0])
              simpa [text, List.append_assoc] using this
            simp only [jpK, s1, s2, ok_bind', lastM, fmtPend, fmtLast, List.append_nil]
            congr 1
            simp [len]
          have hjpR : ∀ code sec : Bytes, jpR () code sec = jpK () (replOf code sec) := by
            intro code sec
            simp only [jpR, replOf, pmHas_colors, pmHas_codes, pmGetS_codes, sec0]
            cases hc1 : colorOf code with
            | none =>
              simp only [Option.isSome_none, Bool.false_eq_true, if_false]
              cases hcd : codeOf code <;> simp [hcd]
            | some c =>
              have hd := fmtD2_colors code c hc1
              simp only [Option.isSome_some, if_true, hd]
              cases sec with
              | nil => simp
              | cons x xs =>
                cases hc2 : colorOf (x :: xs) with
                | none => simp [hc2]
                | some c' =>
                  have hd' := fmtD2_colors (x :: xs) c' hc2
                  simp [hc2, hd', COMMA]
          have s0 : sliceI (A ++ RBRACE :: rest) (last0 + 1) (A.length : Int) = .ok p := by
            have := slice_mid (out ++ [LBRACE]) p (RBRACE :: rest) (last0 + 1) (A.length : Int)
              (by simp [last0, fmtLast]) (by rw [hA']; simp; omega)
            simpa [hA', List.append_assoc] using this
          have hcom : indexI (toLowerAscii p) [0x2C] = indexByteI (toLowerAscii p) COMMA := indexI_single _ _
          simp only [c3, if_true, s0, ok_bind', hcom, fmtRepl_replOf]
          unfold indexByteI
          cases hidx : indexOf COMMA (toLowerAscii p) with
          | none =>
            have c4 : decide ((-1 : Int) > -1) = false := by decide
            simp only [c4, Bool.false_eq_true, if_false, hjpR, hjpK, sec0]
            obtain ⟨L, ih⟩ := Fmt_loop1_eq fuel (out ++ replOf (toLowerAscii p) []) none rest hfr
            exact ⟨L, by simpa [List.append_assoc] using ih⟩
          | some com =>
            have hlt := ParseTotal.indexOf_lt hidx
            have c4 : decide ((com : Int) > -1) = true := by apply decide_eq_true; omega
            have s3 := sliceI_int_end (toLowerAscii p) ((com : Int) + 1) (com + 1) (by omega) (by omega)
            have s4 := sliceI_to (toLowerAscii p) com (by omega)
            simp only [c4, if_true, s3, s4, ok_bind', hjpR, hjpK]
            obtain ⟨L, ih⟩ := Fmt_loop1_eq fuel
              (out ++ replOf ((toLowerAscii p).take com) ((toLowerAscii p).drop (com + 1))) none rest hfr
            exact ⟨L, by simpa [List.append_assoc] using ih⟩
        · have c3 : (b == (0x7D : UInt8)) = false := by simp; exact hR
          simp only [c3, Bool.false_eq_true, if_false, hR, andE_ok_ok, orE_ok_ok, inner_cond, pure, Except.pure, ok_bind']
          cases hin : fmtInner b with
          | false =>
            simp only [Bool.not_false, if_true, Bool.false_eq_true, if_false, lastM, iNext, i0]
            obtain ⟨L, ih⟩ := Fmt_loop1_eq fuel (A ++ [b]) none rest hfr
            refine ⟨L, ?_⟩
            have ht : A ++ b :: rest = A ++ [b] ++ fmtPend none ++ rest := by simp [fmtPend]
            have hi : (A.length : Int) + 1 = ((A ++ [b] ++ fmtPend none).length : Int) := by simp [fmtPend]
            rw [ht, hi]
            simpa [fmtLast, hA', List.append_assoc] using ih
          | true =>
            simp only [Bool.not_true, Bool.false_eq_true, if_false, if_true, hjpEnd, text, i0, last0]
            obtain ⟨L, ih⟩ := Fmt_loop1_eq fuel out (some (p ++ [b])) rest hfr
            refine ⟨L, ?_⟩
            have ht : A ++ b :: rest = out ++ fmtPend (some (p ++ [b])) ++ rest := by rw [hA']; simp [fmtPend]
            have hi : (A.length : Int) + 1 = ((out ++ fmtPend (some (p ++ [b]))).length : Int) := by
              rw [hA']; simp [fmtPend]; omega
            rw [ht, hi]
            exact ih

theorem Fmt_eq (text : Bytes) : Fn.Fmt text = .ok (fmt text) := by
  unfold Fn.Fmt fmt
  obtain ⟨L, h⟩ := Fmt_loop1_eq (fuelTo 0 (len text)) [] none text (by fuel_tac)
  simp only [fmtPend, fmtLast, List.nil_append, List.length_nil, Int.natCast_zero] at h
  simp only [h, bind, Except.bind, pure, Except.pure]

/-! ### StripRaw

`reColor.ReplaceAllString(text, "")` is the trusted table entry `stripColor`; `for _, code := range fmtCodes` ranges over a
package-level map, so the order of its keys is a parameter.  Every value of the table is one byte, so each
`strings.ReplaceAll(text, code, "")` is a filter, and filters commute: the result is the model's `stripRaw` for every order
that visits exactly the keys of the table. -/

theorem replaceAllFuel_byte (c : Byte) : ∀ (n : Nat) (s : Bytes), s.length < n →
    replaceAllFuel [c] [] n s = s.filter (fun b => b != c)
  | 0, _, h => by omega
  | _ + 1, [], _ => rfl
  | n + 1, b :: rest, h => by
    unfold replaceAllFuel
    have ih := replaceAllFuel_byte c n rest (by simp at h; omega)
    by_cases hb : b = c
    · subst hb
      simp [List.isPrefixOf, ih]
    · have h1 : (c == b) = false := by simp; exact fun e => hb e.symm
      have h2 : (b != c) = true := by simp [hb]
      simp [List.isPrefixOf, h1, h2, ih]

theorem replaceAll_byte (s : Bytes) (c : Byte) : replaceAll s [c] [] = .ok (s.filter (fun b => b != c)) := by
  unfold replaceAll
  simp [replaceAllFuel_byte c (s.length + 1) s (by omega)]

/-- Every value of the regenerated `fmtCodes` table is a single byte. -/
theorem fmtCodes_single : Fn.fmtCodes.all (fun p => p.2.length == 1) = true := by decide

theorem pmGetS_single (k : Bytes) (hk : k ∈ Fn.fmtCodes.map (·.1)) : ∃ c, pmGetS Fn.fmtCodes k = [c] ∧ (k, [c]) ∈ Fn.fmtCodes := by
  unfold pmGetS
  cases h : List.lookup k Fn.fmtCodes with
  | none =>
    exfalso
    have : ∀ l : List (Bytes × Bytes), k ∈ l.map (·.1) → List.lookup k l ≠ none := by
      intro l
      induction l with
      | nil => simp
      | cons x xs ih =>
        obtain ⟨a, b⟩ := x
        intro hm
        simp only [List.lookup_cons]
        by_cases e : k = a
        · subst e; simp
        · have : (k == a) = false := by simp [e]
          simp only [this]
          apply ih
          simp at hm
          rcases hm with hm | hm
          · exact absurd hm e
          · simpa using hm
    exact this _ hk h
  | some v =>
    have hm := lookup_mem k v _ h
    have hs := List.all_eq_true.mp fmtCodes_single (k, v) hm
    simp at hs
    match v, hs with
    | [c], _ => exact ⟨c, rfl, hm⟩

theorem StripRaw_loop1_eq : ∀ (fuel : Nat) (ks : List Bytes) (text : Bytes), ks.length < fuel →
    (∀ k ∈ ks, k ∈ Fn.fmtCodes.map (·.1)) →
    Fn.StripRaw_loop1 fuel ks text =
      .ok (.done (text.filter (fun b => !(ks.any (fun k => pmGetS Fn.fmtCodes k == [b])))))
  | 0, _, _, h, _ => by omega
  | fuel + 1, [], text, _, _ => by
    have : text.filter (fun _ => true) = text := List.filter_eq_self.mpr (by simp)
    simp [Fn.StripRaw_loop1, pure, Except.pure, this]
  | fuel + 1, k :: ks, text, h, hk => by
    unfold Fn.StripRaw_loop1
    obtain ⟨c, hc, _⟩ := pmGetS_single k (hk k List.mem_cons_self)
    simp only [hc, replaceAll_byte, bind, Except.bind]
    rw [StripRaw_loop1_eq fuel ks _ (by simp at h; omega) (fun k' hk' => hk k' (List.mem_cons_of_mem _ hk'))]
    simp only [List.filter_filter, List.any_cons, hc]
    congr 2
    apply List.filter_congr
    intro b _
    by_cases e : b = c
    · subst e; simp
    · have : (c == b) = false := by simp; exact fun e' => e e'.symm
      simp [e, this]

/-- The bytes the regenerated table strips are the documented `codeBytes`. -/
theorem fmtCodes_bytes : ∀ b : UInt8, Fn.fmtCodes.any (fun p => p.2 == [b]) = Spec.codeBytes.contains b := by
  decide +kernel

theorem any_vals (o : List Bytes) (ho : ∀ k, k ∈ o ↔ k ∈ Fn.fmtCodes.map (·.1)) (b : Byte) :
    o.any (fun k => pmGetS Fn.fmtCodes k == [b]) = Fn.fmtCodes.any (fun p => p.2 == [b]) := by
  apply Bool.eq_iff_iff.mpr
  simp only [List.any_eq_true, beq_iff_eq]
  constructor
  · rintro ⟨k, hk, hv⟩
    obtain ⟨c, hc, hm⟩ := pmGetS_single k ((ho k).mp hk)
    rw [hc] at hv
    exact ⟨(k, [c]), hm, hv⟩
  · rintro ⟨⟨k, v⟩, hm, hv⟩
    have hk : k ∈ Fn.fmtCodes.map (·.1) := List.mem_map.mpr ⟨(k, v), hm, rfl⟩
    refine ⟨k, (ho k).mpr hk, ?_⟩
    -- unique keys: the look-up finds this very entry
    obtain ⟨c, hc, hm'⟩ := pmGetS_single k hk
    have : ∀ l : List (Bytes × Bytes), (l.map (·.1)).Nodup → (k, v) ∈ l → (k, [c]) ∈ l → v = [c] := by
      intro l
      induction l with
      | nil => simp
      | cons x xs ih =>
        obtain ⟨a, w⟩ := x
        intro hnd h1 h2
        simp only [List.map_cons, List.nodup_cons] at hnd
        simp only [List.mem_cons, Prod.mk.injEq] at h1 h2
        rcases h1 with ⟨e1, e2⟩ | h1 <;> rcases h2 with ⟨e3, e4⟩ | h2
        · rw [e2, e4]
        · exact absurd (List.mem_map.mpr ⟨(k, [c]), h2, rfl⟩) (by rw [e1]; exact hnd.1)
        · exact absurd (List.mem_map.mpr ⟨(k, v), h1, rfl⟩) (by rw [e3]; exact hnd.1)
        · exact ih hnd.2 h1 h2
    have hv' := this _ fmtCodes_nodup hm hm'
    simp only at hv
    rw [hc, ← hv', hv]

/-- `StripRaw` for every order that visits exactly the keys of `fmtCodes` (in particular every permutation). -/
theorem StripRaw_eq (o : List Bytes) (ho : ∀ k, k ∈ o ↔ k ∈ Fn.fmtCodes.map (·.1)) (text : Bytes) :
    Fn.StripRaw o text = .ok (stripRaw text) := by
  unfold Fn.StripRaw stripRaw
  simp only [StripRaw_loop1_eq (o.length + 1) o _ (by omega) (fun k hk => (ho k).mp hk), bind, Except.bind, pure, Except.pure]
  congr 2
  funext b
  rw [any_vals o ho b, fmtCodes_bytes b]

theorem StripRaw_perm (o : List Bytes) (ho : o.Perm (Fn.fmtCodes.map (·.1))) (text : Bytes) :
    Fn.StripRaw o text = .ok (stripRaw text) :=
  StripRaw_eq o (fun _ => ho.mem_iff) text

end Girc.Proofs.Trans
