import Girc.Proofs.InvDelete
import Girc.Proofs.InvRename
import Girc.Proofs.InvJoin
namespace Girc.Proofs.InvHandlers
open Girc Girc.Model Girc.Spec

/-- Every built-in handler, on EVERY event (any command, any number of parameters, with or without
    source or tags), returns without a fault and preserves the invariant. -/
theorem handleCommand_inv (cfg : Cfg) (cs : CState) (e : Event) (h : Inv cs.st) :
    ∃ cs' outs, handleCommand cfg cs e = .ok (cs', outs) ∧ Inv cs'.st := by
  sorry

theorem handleEvent_inv (cfg : Cfg) (cs : CState) (e : Event) (time idle : Bytes) (h : Inv cs.st) :
    ∃ cs' outs, handleEvent cfg cs e time idle = .ok (cs', outs) ∧ Inv cs'.st := by
  sorry

/-- Lifted over whole histories of received lines (parseable or not), including the events the
    client injects into its own queue. -/
theorem runLines_inv (cfg : Cfg) (r : Run) (lines : List Bytes) (h : Inv r.cs.st) :
    ∃ r', runLines cfg r lines = .ok r' ∧ Inv r'.cs.st := by
  sorry

/-- In every consistent state a PING is answered by exactly one unthrottled PONG with the same token. -/
theorem ping_answered (cfg : Cfg) (cs : CState) (e : Event) (time idle : Bytes) (hp : e.command = cPING) :
    ∃ cs', handleEvent cfg cs e time idle = .ok (cs', [Out.write { command := cPONG, params := [e.last] }]) := by
  sorry

end Girc.Proofs.InvHandlers
