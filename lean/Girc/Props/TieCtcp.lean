import Girc.Proofs.TransCtcp
import Girc.Proofs.TransEventHelpers
import Girc.Proofs.TransPhase4B
/-
  Tie (TieCtcp): the function bodies regenerated from the Go source on every run (Girc/Gen/Funcs.lean, written by
  tools/extract/translate.go) equal the hand-written models the property theorems of C14 are about, for ALL inputs.
  Only restatements of theorems proved in Girc/Proofs/Trans*.lean, each with a non-vacuity example that evaluates the
  generated function on a literal. An edit of the Go function changes Funcs.lean and the equivalence stops building.
-/
namespace Girc.Props.TieCtcp
open Girc Girc.Model Girc.Gen

/-! ### ctcp.go -/

theorem tie_EncodeCTCPRaw : ∀ cmd text : Bytes, Fn.EncodeCTCPRaw cmd text = .ok (encodeCTCPRaw cmd text) :=
  Proofs.Trans.EncodeCTCPRaw_eq
example : Fn.EncodeCTCPRaw [0x50, 0x49] [0x78] = .ok [0x01, 0x50, 0x49, 0x20, 0x78, 0x01] := by rfl

theorem tie_DecodeCTCP : ∀ e : Event, Fn.DecodeCTCP (some e) = .ok (decodeCTCP e) := Proofs.Trans.DecodeCTCP_eq
theorem tie_DecodeCTCP_nil : Fn.DecodeCTCP none = .ok none := Proofs.Trans.DecodeCTCP_nil
-- PRIVMSG x :\x01PING 1\x01
example : Fn.DecodeCTCP (some { command := PRIVMSG, params := [[0x78], [0x01, 0x50, 0x49, 0x4E, 0x47, 0x20, 0x31, 0x01]] }) =
    .ok (some { source := none, command := [0x50, 0x49, 0x4E, 0x47], text := [0x31], reply := false }) := by rfl

/-! ### event.go: the CTCP views of an event (models in Model/EventHelpers.lean) -/

theorem tie_Event_IsCTCP : ∀ e : Event, Fn.Event_IsCTCP (some e) = .ok (isCTCP e) := Proofs.Trans.Event_IsCTCP_eq
theorem tie_Event_IsAction : ∀ e : Event, Fn.Event_IsAction (some e) = .ok (isAction e) := Proofs.Trans.Event_IsAction_eq
theorem tie_Event_IsAction_nil : Fn.Event_IsAction none = .error .nilDeref := Proofs.Trans.Event_IsAction_nil
-- PRIVMSG #c :\x01ACTION waves\x01
example : Fn.Event_IsAction (some { command := PRIVMSG, params := [[0x23, 0x63],
    [0x01, 0x41, 0x43, 0x54, 0x49, 0x4F, 0x4E, 0x20, 0x77, 0x61, 0x76, 0x65, 0x73, 0x01]] }) = .ok true := by rfl

/-- `StripAction`: the model says `none` exactly where the Go code panics (`msg[8:len(msg)-1]` on the 8-byte message
    `\x01ACTION\x01`, which `IsAction` accepts). -/
theorem tie_Event_StripAction : ∀ e : Event,
    Fn.Event_StripAction (some e) = (match stripAction e with
                                     | some b => .ok b
                                     | none => .error .sliceBounds) := Proofs.Trans.Event_StripAction_eq
example : Fn.Event_StripAction (some { command := PRIVMSG, params := [[0x23, 0x63],
    [0x01, 0x41, 0x43, 0x54, 0x49, 0x4F, 0x4E, 0x20, 0x77, 0x61, 0x76, 0x65, 0x73, 0x01]] }) =
    .ok [0x77, 0x61, 0x76, 0x65, 0x73] := by rfl
-- the bare ACTION panics
example : Fn.Event_StripAction (some { command := PRIVMSG, params := [[0x23, 0x63],
    [0x01, 0x41, 0x43, 0x54, 0x49, 0x4F, 0x4E, 0x01]] }) = .error .sliceBounds := by rfl
example : Fn.Event_StripAction (some { command := PRIVMSG, params := [[0x23, 0x63], [0x68, 0x69]] }) = .ok [0x68, 0x69] := by rfl

/-! ### phase 4: `EncodeCTCP`, `(*CTCP).parseCMD` (pure on its argument; the receiver is a dropped handle) -/

theorem tie_EncodeCTCP : ∀ c : CTCPEvent, Fn.EncodeCTCP (some c) = .ok (encodeCTCPRaw c.command c.text) :=
  Proofs.Trans.EncodeCTCP_eq
theorem tie_EncodeCTCP_nil : Fn.EncodeCTCP none = .ok [] := Proofs.Trans.EncodeCTCP_nil
example : Fn.EncodeCTCP (some { source := none, command := [0x50, 0x49], text := [0x78], reply := false }) =
    .ok [0x01, 0x50, 0x49, 0x20, 0x78, 0x01] := by rfl

theorem tie_CTCP_parseCMD : ∀ cmd : Bytes, Fn.CTCP_parseCMD cmd = .ok (ctcpParseCmd cmd) := Proofs.Trans.CTCP_parseCMD_eq
example : Fn.CTCP_parseCMD [0x70, 0x69, 0x6E, 0x67] = .ok [0x50, 0x49, 0x4E, 0x47] := by rfl   -- "ping" ↦ "PING"
example : Fn.CTCP_parseCMD [0x2A] = .ok [0x2A] := by rfl                                       -- the wildcard
example : Fn.CTCP_parseCMD [0x70, 0x2D] = .ok [] := by rfl                                     -- "p-" is rejected

end Girc.Props.TieCtcp
