package main

import (
	"bufio"
	"bytes"
	"encoding/json"
	"fmt"
	"io"
	"net"
	"os"
	"os/exec"
	"reflect"
	"sort"
	"strconv"
	"strings"
	"sync"
	"time"

	"github.com/lrstanley/girc"
)

// ---- session scripts: a real Client on a net.Pipe, driven step by step ----

type SessCfg struct {
	Nick, User, Name   string
	ServerPass         string
	WebIRC             []string // password, gateway, hostname, address
	SASL               string   // "", "plain", "external", "custom:<responses joined by \x00>"
	SASLUser, SASLPass string
	SupportedCaps      map[string][]string
	DisableSTS         bool
	DisableSTSFallback bool
	SSL                bool
	AllowFlood         bool
	GlobalFormat       bool
	Version            string
	NickCollide        string // "", "suffix:<s>", "empty", "fixed:<nick>"
	DisableTracking    bool
	NoRecover          bool
	MutatingHandlers   bool // user handlers that scribble on the event they are handed (a bridge rewriting source/target)
}

type Step struct {
	Op   string   `json:"op"`             // recv | barrier | waitnick | call | dump | close | sleep
	Arg  string   `json:"arg,omitempty"`  // line / nick / helper name
	Args []string `json:"args,omitempty"` // helper arguments
}

type Session struct {
	Cfg      SessCfg `json:"cfg"`
	Steps    []Step  `json:"steps"`
	RegLines int     `json:"reglines"` // lines the client writes before anything is received
}

type SessResult struct {
	Written    []string     `json:"written"` // every line the client wrote (barrier PONGs removed), without CRLF
	Dumps      [][]string   `json:"dumps"`
	Getters    [][]string   `json:"getters"`
	Panics     []string     `json:"panics"`
	Wedged     bool         `json:"wedged"`
	Crashed    bool         `json:"crashed"` // the worker process died while running this session
	CrashOut   string       `json:"crash_out,omitempty"`
	Timings    [][4]float64 `json:"timings"` // per timed call: call start, call return, arrival (ms since session start), line length
	TimedLines []string     `json:"timed_lines"`
	Snap       []string     `json:"snap"`    // snapshot-isolation discrepancies (C13)
	Marks      [][2]int     `json:"marks"`   // (step index, lines written so far) at every successful barrier
	Connect    string       `json:"connect"` // how Connect returned: "" (still running at the end), "nil", "errevent:<text>", "err:<text>"
	Debug      string       `json:"debug,omitempty"`
	Out        string       `json:"out,omitempty"`
}

type customMech struct {
	method    string
	responses []string
	i         int
}

func (m *customMech) Method() string { return m.method }
func (m *customMech) Encode(params []string) string {
	if m.i >= len(m.responses) {
		return ""
	}
	r := m.responses[m.i]
	m.i++
	return r
}

func buildConfig(sc SessCfg, debug, out io.Writer, panics *[]string, mu *sync.Mutex) girc.Config {
	cfg := girc.Config{Server: "irc.example.org", Port: 6667, Nick: sc.Nick, User: sc.User, Name: sc.Name,
		ServerPass: sc.ServerPass, SupportedCaps: sc.SupportedCaps, DisableSTS: sc.DisableSTS,
		DisableSTSFallback: sc.DisableSTSFallback, SSL: sc.SSL, AllowFlood: sc.AllowFlood,
		GlobalFormat: sc.GlobalFormat, Version: sc.Version, Debug: debug, Out: out}
	if len(sc.WebIRC) == 4 {
		cfg.WebIRC = girc.WebIRC{Password: sc.WebIRC[0], Gateway: sc.WebIRC[1], Hostname: sc.WebIRC[2], Address: sc.WebIRC[3]}
	}
	switch {
	case sc.SASL == "plain":
		cfg.SASL = &girc.SASLPlain{User: sc.SASLUser, Pass: sc.SASLPass}
	case sc.SASL == "external":
		cfg.SASL = &girc.SASLExternal{Identity: sc.SASLUser}
	case strings.HasPrefix(sc.SASL, "custom:"):
		cfg.SASL = &customMech{method: "CUSTOM", responses: strings.Split(sc.SASL[len("custom:"):], "\x00")}
	}
	switch {
	case strings.HasPrefix(sc.NickCollide, "suffix:"):
		suf := sc.NickCollide[len("suffix:"):]
		cfg.HandleNickCollide = func(old string) string { return old + suf }
	case sc.NickCollide == "empty":
		cfg.HandleNickCollide = func(old string) string { return "" }
	case strings.HasPrefix(sc.NickCollide, "fixed:"):
		n := sc.NickCollide[len("fixed:"):]
		cfg.HandleNickCollide = func(old string) string { return n }
	}
	if !sc.NoRecover {
		cfg.RecoverFunc = func(c *girc.Client, e *girc.HandlerError) {
			mu.Lock()
			*panics = append(*panics, fmt.Sprintf("%s: %v", e.Event.Command, e.Panic))
			mu.Unlock()
		}
	}
	return cfg
}

func callHelper(c *girc.Client, name string, a []string) {
	arg := func(i int) string {
		if i < len(a) {
			return a[i]
		}
		return ""
	}
	switch name {
	case "Nick":
		c.Cmd.Nick(arg(0))
	case "Join":
		c.Cmd.Join(a...)
	case "JoinKey":
		c.Cmd.JoinKey(arg(0), arg(1))
	case "Part":
		c.Cmd.Part(a...)
	case "PartMessage":
		c.Cmd.PartMessage(arg(0), arg(1))
	case "Message":
		c.Cmd.Message(arg(0), arg(1))
	case "Notice":
		c.Cmd.Notice(arg(0), arg(1))
	case "Action":
		c.Cmd.Action(arg(0), arg(1))
	case "Topic":
		c.Cmd.Topic(arg(0), arg(1))
	case "Kick":
		c.Cmd.Kick(arg(0), arg(1), arg(2))
	case "Mode":
		c.Cmd.Mode(arg(0), arg(1), a[min(2, len(a)):]...)
	case "Ban":
		c.Cmd.Ban(arg(0), arg(1))
	case "Invite":
		c.Cmd.Invite(arg(0), a[min(1, len(a)):]...)
	case "Away":
		c.Cmd.Away(arg(0))
	case "List":
		c.Cmd.List(a...)
	case "Who":
		c.Cmd.Who(a...)
	case "Whois":
		c.Cmd.Whois(a...)
	case "Whowas":
		c.Cmd.Whowas(arg(0), 3)
	case "Oper":
		c.Cmd.Oper(arg(0), arg(1))
	case "Ping":
		c.Cmd.Ping(arg(0))
	case "Pong":
		c.Cmd.Pong(arg(0))
	case "SendRaw":
		_ = c.Cmd.SendRaw(a...)
	case "TemplateMessage": // an application that builds its messages from one measured template (Len is documented for trimming)
		tmpl := &girc.Event{Command: girc.PRIVMSG, Params: []string{arg(0), ""}}
		room := 400 - tmpl.Len()
		e := *tmpl
		text := arg(1)
		if len(text) > room {
			text = text[:room]
		}
		e.Params = []string{arg(0), text}
		c.Send(&e)
	case "SendCTCP":
		func() {
			defer func() { recover() }()
			c.Cmd.SendCTCP(arg(0), arg(1), arg(2))
		}()
	case "SendCTCPReply":
		func() {
			defer func() { recover() }()
			c.Cmd.SendCTCPReply(arg(0), arg(1), arg(2))
		}()
	case "Monitor":
		c.Cmd.Monitor('+', a...)
	case "Quit":
		c.Quit(arg(0))
	case "SendEvent": // args: command, params...
		c.Send(&girc.Event{Command: arg(0), Params: a[min(1, len(a)):]})
	default:
		panic("unknown helper " + name)
	}
}

func getters(c *girc.Client) []string {
	var out []string
	defer func() {
		if r := recover(); r != nil {
			out = append(out, fmt.Sprintf("getter-panic: %v", r))
		}
	}()
	out = append(out, "nick="+c.GetNick(), "ident="+c.GetIdent(), "host="+c.GetHost(), "motd="+c.ServerMOTD(),
		"network="+c.NetworkName(), "version="+c.ServerVersion(), fmt.Sprintf("maxlen=%d", c.MaxEventLength()),
		"channels="+strings.Join(c.ChannelList(), "\x01"), "users="+strings.Join(c.UserList(), "\x01"))
	for _, ch := range c.Channels() {
		out = append(out, "channel\x00"+ch.Name+"\x00"+ch.Topic+"\x00"+strings.Join(ch.UserList, "\x01")+"\x00"+ch.Modes.String())
	}
	for _, u := range c.Users() {
		var perms []string
		for _, chn := range u.ChannelList {
			p, ok := u.Perms.Lookup(chn)
			perms = append(perms, fmt.Sprintf("%s=%v%v%v%v%v%v", chn, b01(ok), b01(p.Owner), b01(p.Admin), b01(p.Op), b01(p.HalfOp), b01(p.Voice)))
		}
		out = append(out, "user\x00"+u.Nick+"\x00"+u.Ident+"\x00"+u.Host+"\x00"+strings.Join(u.ChannelList, "\x01")+"\x00"+
			u.Extras.Name+"\x00"+u.Extras.Account+"\x00"+u.Extras.Away+"\x00"+strings.Join(perms, "\x01"))
	}
	var caps []string
	for _, k := range []string{"account-notify", "account-tag", "away-notify", "batch", "cap-notify", "chghost", "extended-join", "invite-notify",
		"message-tags", "msgid", "multi-prefix", "server-time", "userhost-in-names", "sasl", "sts", "echo-message", "MULTI-PREFIX", "foo", "bar"} {
		if c.HasCapability(k) {
			caps = append(caps, k)
		}
	}
	out = append(out, "hascap="+strings.Join(caps, ","))
	return out
}

func b01(b bool) int {
	if b {
		return 1
	}
	return 0
}

// runSession executes one script in this process.
func runSession(s *Session) *SessResult {
	res := &SessResult{Written: []string{}, Panics: []string{}}
	var mu sync.Mutex
	var debug, out bytes.Buffer
	dw := &lockedWriter{w: &debug}
	ow := &lockedWriter{w: &out}
	cfg := buildConfig(s.Cfg, dw, ow, &res.Panics, &mu)
	c := girc.New(cfg)
	if s.Cfg.DisableTracking {
		c.DisableTracking()
	}
	if s.Cfg.MutatingHandlers {
		// every handler gets its OWN copy of the event: what one of them does to it is nobody else's business
		scribble := func(_ *girc.Client, e girc.Event) {
			if e.Source != nil {
				e.Source.Name, e.Source.Ident, e.Source.Host = "bridge-"+e.Source.Name, "scribbled", "scribbled"
			}
			if len(e.Params) > 1 {
				e.Params[0] = "#scribbled" // (a bridge rewrites who said it and where; the text stays)
			}
		}
		// (foreground handlers of PRIVMSG/NOTICE share their copy only with updateLastActive, which touches nothing but
		// timestamps; the wildcard foreground group is left alone because the tracker's handleTags lives there)
		c.Handlers.Add(girc.PRIVMSG, scribble)
		c.Handlers.Add(girc.NOTICE, scribble)
		c.Handlers.AddBg(girc.ALL_EVENTS, scribble)
	}
	cliConn, srvConn := net.Pipe()
	connDone := make(chan error, 1)
	go func() { connDone <- c.MockConnect(cliConn) }()

	var wmu sync.Mutex
	written := []string{}
	arrivals := []time.Time{}
	t0 := time.Now()
	cond := make(chan struct{}, 1024)
	go func() {
		rd := bufio.NewReader(srvConn)
		for {
			line, err := rd.ReadString('\n')
			if line != "" {
				wmu.Lock()
				written = append(written, strings.TrimSuffix(strings.TrimSuffix(line, "\n"), "\r"))
				arrivals = append(arrivals, time.Now())
				wmu.Unlock()
				select {
				case cond <- struct{}{}:
				default:
				}
			}
			if err != nil {
				return
			}
		}
	}()
	send := func(line string) bool {
		srvConn.SetWriteDeadline(time.Now().Add(3 * time.Second))
		_, err := srvConn.Write([]byte(line + "\r\n"))
		return err == nil
	}
	countWritten := func() int {
		wmu.Lock()
		defer wmu.Unlock()
		n := 0
		for _, l := range written {
			if !strings.HasPrefix(l, "PONG vbar") {
				n++
			}
		}
		return n
	}
	waitWritten := func(n int, d time.Duration) {
		dl := time.Now().Add(d)
		for countWritten() < n && time.Now().Before(dl) {
			select {
			case <-cond:
			case <-time.After(5 * time.Millisecond):
			}
		}
	}
	// registration lines first: they are written by Connect's own goroutine and would otherwise interleave
	// with the answers to the first received lines
	if s.RegLines == 0 {
		s.RegLines = registrationCount(s.Cfg)
	}
	waitWritten(s.RegLines, 20*time.Second)
	snaps := &snapState{}
	nbar := 0
	closed := false
	var getConnectNow func(err error)
	barrier := func() bool {
		if closed {
			return true
		}
		nbar++
		tok := fmt.Sprintf("vbar%d", nbar)
		if !send("PING :" + tok) {
			// the client side is gone: Connect is returning
			select {
			case err := <-connDone:
				getConnectNow(err)
				return true
			case <-time.After(15 * time.Second):
				return false
			}
		}
		deadline := time.After(15 * time.Second)
		for {
			wmu.Lock()
			found := false
			for _, l := range written {
				if l == "PONG "+tok {
					found = true
				}
			}
			wmu.Unlock()
			if found {
				return true
			}
			select {
			case <-cond:
			case err := <-connDone:
				getConnectNow(err)
				return true
			case <-time.After(20 * time.Millisecond):
			case <-deadline:
				return false
			}
		}
	}
	// a getter must also still work (a panic under the state lock leaves it held)
	getterAlive := func() bool {
		if s.Cfg.DisableTracking {
			return true
		}
		ok := make(chan struct{})
		go func() { c.GetNick(); c.ChannelList(); close(ok) }()
		select {
		case <-ok:
			return true
		case <-time.After(15 * time.Second):
			return false
		}
	}
	getConnectNow = func(err error) {
		res.Connect = classifyErr(err)
		closed = true
	}
	getConnect := func() bool {
		select {
		case err := <-connDone:
			res.Connect = classifyErr(err)
			closed = true
			return true
		default:
			return false
		}
	}
	markAt := 0
	for si, st := range s.Steps {
		if res.Wedged {
			break
		}
		switch st.Op {
		case "recv":
			if !closed && !send(st.Arg) {
				if !getConnect() {
					time.Sleep(50 * time.Millisecond)
					getConnect()
				}
			}
		case "barrier":
			if !barrier() {
				time.Sleep(100 * time.Millisecond)
				if !getConnect() {
					res.Wedged = true
				}
			} else if !getterAlive() {
				res.Wedged = true
			} else {
				res.Marks = append(res.Marks, [2]int{si, countWritten()})
			}
		case "waitnick":
			dl := time.Now().Add(15 * time.Second)
			// the tracked nick itself (GetNick falls back to Config.Nick while it is still empty)
			for !closed && girc.VerifDumpState(c)[0] != "nick="+st.Arg && time.Now().Before(dl) {
				select {
				case err := <-connDone:
					getConnectNow(err)
				case <-time.After(time.Millisecond):
				}
			}
		case "call":
			done := make(chan struct{})
			go func() { callHelper(c, st.Arg, st.Args); close(done) }()
			select {
			case <-done:
			case <-time.After(40 * time.Second):
				res.Wedged = true
			}
		case "dump":
			if !s.Cfg.DisableTracking {
				res.Dumps = append(res.Dumps, girc.VerifDumpState(c))
				res.Getters = append(res.Getters, getters(c))
			}
		case "close":
			c.Close()
		case "timedcall":
			// lock-step sender: call the helper, then wait for its line to arrive at the server
			wmu.Lock()
			before := len(written)
			wmu.Unlock()
			tc := time.Now()
			callHelper(c, st.Arg, st.Args)
			tr := time.Now()
			dl := time.Now().Add(6 * time.Second)
			var ta time.Time
			var line string
			for time.Now().Before(dl) {
				wmu.Lock()
				if len(written) > before {
					ta, line = arrivals[before], written[before]
				}
				wmu.Unlock()
				if !ta.IsZero() {
					break
				}
				time.Sleep(200 * time.Microsecond)
			}
			ms := func(t time.Time) float64 {
				if t.IsZero() {
					return -1
				}
				return float64(t.Sub(t0).Microseconds()) / 1000
			}
			res.Timings = append(res.Timings, [4]float64{ms(tc), ms(tr), ms(ta), float64(len(line))})
			res.TimedLines = append(res.TimedLines, line)
			// a helper call may have written several lines (a split message): Send hands the pieces to the limiter one
			// after the other, so piece k is "called" when piece k-1 has been written. Marker -3 = continuation piece.
			time.Sleep(3 * time.Millisecond)
			wmu.Lock()
			for k := before + 1; k < len(written); k++ {
				res.Timings = append(res.Timings, [4]float64{ms(arrivals[k-1]), -3, ms(arrivals[k]), float64(len(written[k]))})
				res.TimedLines = append(res.TimedLines, written[k])
			}
			wmu.Unlock()
		case "collectarrivals":
			// wait until the client has written Arg more lines than at the last "lastarrival"/timed call, then report the
			// arrival time of each (marker -4 = written in answer to received lines, no helper call)
			var want int
			fmt.Sscan(st.Arg, &want)
			from := markAt
			dl := time.Now().Add(25 * time.Second)
			for time.Now().Before(dl) {
				wmu.Lock()
				n := len(written)
				wmu.Unlock()
				if n >= from+want {
					break
				}
				time.Sleep(time.Millisecond)
			}
			wmu.Lock()
			for k := from; k < len(written); k++ {
				prev := -1.0
				if k > 0 {
					prev = float64(arrivals[k-1].Sub(t0).Microseconds()) / 1000
				}
				res.Timings = append(res.Timings, [4]float64{prev, -4, float64(arrivals[k].Sub(t0).Microseconds()) / 1000, float64(len(written[k]))})
				res.TimedLines = append(res.TimedLines, written[k])
			}
			wmu.Unlock()
		case "marklines":
			wmu.Lock()
			markAt = len(written)
			wmu.Unlock()
		case "lastarrival":
			wmu.Lock()
			if len(arrivals) > 0 {
				res.Timings = append(res.Timings, [4]float64{-2, -2, float64(arrivals[len(arrivals)-1].Sub(t0).Microseconds()) / 1000, 0})
				res.TimedLines = append(res.TimedLines, "<last arrival so far>")
			}
			wmu.Unlock()
		case "lookups":
			lookupsOp(c, res)
		case "snap":
			if !s.Cfg.DisableTracking {
				snaps.op(c, st.Arg, res)
			}
		case "sleep":
			d := 30 * time.Millisecond
			if ms, err := strconv.Atoi(st.Arg); err == nil && ms > 0 {
				d = time.Duration(ms) * time.Millisecond
			}
			time.Sleep(d)
		case "waitwritten":
			var n int
			fmt.Sscan(st.Arg, &n)
			if !closed {
				waitWritten(n, 3*time.Second)
			} else {
				waitWritten(n, 200*time.Millisecond)
			}
		case "waitconnect":
			select {
			case err := <-connDone:
				res.Connect = classifyErr(err)
				closed = true
			case <-time.After(5 * time.Second):
				res.Connect = "timeout"
			}
		}
	}
	if !closed {
		getConnect()
	}
	c.Close()
	if !closed {
		select {
		case err := <-connDone:
			if res.Connect == "" {
				res.Connect = "closed-at-end:" + classifyErr(err)
			}
		case <-time.After(20 * time.Second):
			res.Connect = "no-return"
		}
	}
	srvConn.Close()
	wmu.Lock()
	for _, l := range written {
		if !strings.HasPrefix(l, "PONG vbar") {
			res.Written = append(res.Written, l)
		}
	}
	wmu.Unlock()
	mu.Lock()
	sort.Strings(res.Panics)
	mu.Unlock()
	res.Debug = dw.String()
	res.Out = ow.String()
	return res
}

func classifyErr(err error) string {
	if err == nil {
		return "nil"
	}
	if ee, ok := err.(*girc.ErrEvent); ok {
		return "errevent:" + ee.Error()
	}
	return "err:" + err.Error()
}

type lockedWriter struct {
	mu sync.Mutex
	w  *bytes.Buffer
}

func (l *lockedWriter) Write(p []byte) (int, error) {
	l.mu.Lock()
	defer l.mu.Unlock()
	return l.w.Write(p)
}
func (l *lockedWriter) String() string {
	l.mu.Lock()
	defer l.mu.Unlock()
	return l.w.String()
}

// ---- worker process: sessions run in a child so that a crash is an observation ----

func workerMain() {
	rd := bufio.NewReaderSize(os.Stdin, 1<<20)
	wr := bufio.NewWriter(os.Stdout)
	for {
		line, err := rd.ReadBytes('\n')
		if len(line) > 0 {
			var s Session
			if json.Unmarshal(line, &s) != nil {
				fmt.Fprintln(wr, `{"error":"bad session"}`)
			} else {
				mapStrings(reflect.ValueOf(&s), fromRunes)
				res := runSession(&s)
				mapStrings(reflect.ValueOf(res), toRunes)
				b, _ := json.Marshal(res)
				wr.Write(b)
				wr.WriteByte('\n')
			}
			wr.Flush()
		}
		if err != nil {
			return
		}
	}
}

type Worker struct {
	cmd *exec.Cmd
	in  io.WriteCloser
	out *bufio.Reader
	err *bytes.Buffer
}

func startWorker() *Worker {
	cmd := exec.Command(os.Args[0], "-worker")
	in, _ := cmd.StdinPipe()
	out, _ := cmd.StdoutPipe()
	eb := &bytes.Buffer{}
	cmd.Stderr = eb
	if err := cmd.Start(); err != nil {
		fatal("start worker: %v", err)
	}
	return &Worker{cmd: cmd, in: in, out: bufio.NewReaderSize(out, 1<<20), err: eb}
}

// Run executes a session in the worker; a dead worker yields Crashed=true and the worker is restarted.
func (c *Ctx) RunSession(s *Session) *SessResult {
	if c.Wedges >= 1 {
		// a session has already hung the client (that costs a two-minute timeout): the property is violated and has
		// been reported; do not spend hours confirming it on every remaining case
		return &SessResult{Wedged: true, Written: []string{}, Panics: []string{}, Connect: "skipped-after-wedges"}
	}
	if c.W == nil {
		c.W = startWorker()
	}
	enc := *s
	enc.Steps = append([]Step{}, s.Steps...)
	for i := range enc.Steps {
		enc.Steps[i].Args = append([]string{}, enc.Steps[i].Args...)
	}
	if s.Cfg.SupportedCaps != nil {
		enc.Cfg.SupportedCaps = map[string][]string{}
		for k, v := range s.Cfg.SupportedCaps {
			enc.Cfg.SupportedCaps[k] = append([]string{}, v...)
		}
	}
	enc.Cfg.WebIRC = append([]string{}, s.Cfg.WebIRC...)
	mapStrings(reflect.ValueOf(&enc), toRunes)
	b, _ := json.Marshal(&enc)
	c.W.in.Write(append(b, '\n'))
	type rd struct {
		line []byte
		err  error
	}
	ch := make(chan rd, 1)
	go func() { l, e := c.W.out.ReadBytes('\n'); ch <- rd{l, e} }()
	select {
	case r := <-ch:
		if r.err != nil || len(r.line) == 0 {
			c.W.cmd.Wait()
			out := c.W.err.String()
			if len(out) > 1500 {
				out = out[:1500]
			}
			c.W = nil
			return &SessResult{Crashed: true, CrashOut: out, Written: []string{}, Panics: []string{}}
		}
		var res SessResult
		if json.Unmarshal(r.line, &res) != nil {
			fatal("worker: bad result %q", r.line)
		}
		mapStrings(reflect.ValueOf(&res), fromRunes)
		if res.Wedged {
			// the worker itself found the client unresponsive (a barrier timed out): same fast-fail as a worker timeout
			c.Wedges++
		}
		return &res
	case <-time.After(120 * time.Second):
		c.W.cmd.Process.Kill()
		c.W.cmd.Wait()
		c.W = nil
		c.Wedges++
		return &SessResult{Wedged: true, Written: []string{}, Panics: []string{}, Connect: "worker-timeout"}
	}
}
