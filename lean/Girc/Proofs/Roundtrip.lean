import Girc.Spec.EventSpec
import Girc.Spec.Grammar
import Girc.Proofs.Tags
import Girc.Proofs.Utf8
import Girc.Proofs.ParseRender
import Girc.Proofs.RoundtripLemmas
import Girc.Proofs.RoundtripLine
namespace Girc.Proofs.Roundtrip
open Girc Girc.Model Girc.Spec
open Girc.Proofs.ParseLemmas Girc.Proofs.ParseParams Girc.Proofs.ParseSections
open Girc.Proofs.ParseRender Girc.Proofs.RoundtripLemmas

theorem roundtrip_event (e : Event) (h : WFEvent e = true) :
    ∃ e', parseEvent (eventBytes e) = some e' ∧ EventEquiv e' e := by
  simp only [WFEvent, Bool.and_eq_true, decide_eq_true_eq] at h
  obtain ⟨⟨⟨⟨hcmd, hparams⟩, hsrc⟩, htags⟩, hlen⟩ := h
  have htags' : ∀ m, e.tags = some m → wfTags m = true := by
    intro m hm; rw [hm] at htags; simpa using htags
  have hsrc' : ∀ s, e.source = some s → wfSource s = true := by
    intro s hs; rw [hs] at hsrc; simpa using hsrc
  obtain ⟨hcmdOK, hcmdClean, hupper⟩ := wfCmd_ok e.command hcmd
  obtain ⟨hPsp, hPclean, hPparse⟩ := wfParams_ok e.params hparams
  have htagSec := tagSecE_ok e.tags htags'
  have hsrcSec : ∀ s, e.source.map sourceBytes = some s → s ≠ [] ∧ SP ∉ s ∧ Clean s := by
    intro s hs
    cases hsrc0 : e.source with
    | none => simp [hsrc0] at hs
    | some src =>
      simp only [hsrc0, Option.map_some, Option.some.injEq] at hs
      subst hs
      obtain ⟨a, b, c, _⟩ := wfSource_ok src (hsrc' src hsrc0)
      exact ⟨a, b, c⟩
  have hshape := rawBytes_shape e htags'
  have hclean : Clean (rawBytes e) := by
    rw [hshape]
    exact (secPart_clean AT (by decide) (by decide) _ (fun s hs => (htagSec s hs).2.2)).append
      ((secPart_clean COLON (by decide) (by decide) _ (fun s hs => (hsrcSec s hs).2.2)).append
        (hcmdClean.append hPclean))
  have heb : eventBytes e = rawBytes e := hclean.eventBytes_eq
  have htrim : trimCRLF (eventBytes e) = secPart AT (tagSecE e.tags) ++
      (secPart COLON (e.source.map sourceBytes) ++ (e.command ++ paramsBytes e.params)) := by
    rw [heb, trimCRLF_id _ hclean.2, hshape]
  have hlen' : 2 ≤ (trimCRLF (eventBytes e)).length := by
    rw [heb, trimCRLF_id _ hclean.2]; exact hlen
  refine ⟨_, parseEvent_sections _ _ _ _ _ htrim hlen'
    (fun s hs => ⟨(htagSec s hs).1, (htagSec s hs).2.1⟩)
    (fun s hs => ⟨(hsrcSec s hs).1, (hsrcSec s hs).2.1⟩)
    hcmdOK.ne hcmdOK.sp hcmdOK.at_ hcmdOK.col hPsp, ?_⟩
  refine ⟨hupper, hPparse, ?_, tagSecE_parse e.tags htags'⟩
  cases hsrc0 : e.source with
  | none => rfl
  | some src =>
    simp only [Option.map_some, Option.some.injEq]
    exact (wfSource_ok src (hsrc' src hsrc0)).2.2.2

/-- Fields of a grammatical line are valid UTF-8 (C01's quantifier) and its tag section fits. -/
def lineClean (l : Line) : Bool :=
  validUTF8 (render l) && (match l.tags with
    | some ts => (tagsBytesFull (meaningTags ts)).length ≤ maxTagLength
    | none => true)

theorem roundtrip_line (l : Line) (h : wfLine l = true) (hc : lineClean l = true) :
    ∃ e₁ e₂, parseEvent (render l) = some e₁ ∧ parseEvent (eventBytes e₁) = some e₂ ∧ EventEquiv e₂ e₁ := by
  simp only [lineClean, Bool.and_eq_true] at hc
  have hlen : ∀ ts, l.tags = some ts → (tagsBytesFull (meaningTags ts)).length ≤ maxTagLength := by
    intro ts hts
    have := hc.2
    rw [hts] at this
    simpa using this
  have hwf : WFEvent (meaning l) = true := RoundtripLine.wfEvent_meaning l h hc.1 hlen
  obtain ⟨e₂, hp, heq⟩ := roundtrip_event (meaning l) hwf
  exact ⟨meaning l, e₂, ParseRender.parse_render l h, hp, heq⟩

end Girc.Proofs.Roundtrip
