import Girc.Proofs.ParseLemmas
import Girc.Spec.Grammar
/-
  `parseParams` on a rendered parameter section (arbitrary SPACE runs, optional trailing).
-/
namespace Girc.Proofs.ParseParams
open Girc Girc.Model Girc.Spec

/-- Weak middle: non-empty, SPACE-free, not ':'-leading. -/
def WkMid (t : Bytes) : Prop := t ≠ [] ∧ SP ∉ t ∧ t.head? ≠ some COLON

/-- Empty or SPACE-leading. -/
def SpLead (s : Bytes) : Prop := s = [] ∨ s.head? = some SP

theorem spLead_nil : SpLead [] := Or.inl rfl
theorem spLead_cons (s : Bytes) : SpLead (SP :: s) := Or.inr rfl

theorem spLead_replicate (n : Nat) : SpLead (List.replicate n SP) := by
  cases n with
  | zero => exact Or.inl rfl
  | succ n => exact Or.inr (by simp [List.replicate_succ])

theorem spLead_spaces_append (n : Nat) (r : Bytes) : SpLead (spaces n ++ r) :=
  Or.inr (by simp [spaces, List.replicate_succ])

theorem spLead_renderMiddles_append (ms : List (Nat × Bytes)) (r : Bytes) (hr : SpLead r) :
    SpLead (renderMiddles ms ++ r) := by
  cases ms with
  | nil => simpa [renderMiddles] using hr
  | cons m ms =>
    obtain ⟨k, tok⟩ := m
    simp only [renderMiddles, List.append_assoc]
    exact spLead_spaces_append _ _

theorem spLead_eq (s : Bytes) (h : SpLead s) (hne : s ≠ []) : s = SP :: s.drop 1 := by
  cases s with
  | nil => exact absurd rfl hne
  | cons x xs =>
    rcases h with h | h
    · exact absurd h hne
    · simp at h; simp [h]

/-! ### `fieldsSp` -/

theorem fieldsSpAux_replicate (k : Nat) (rest : Bytes) :
    fieldsSpAux (List.replicate k SP ++ rest) [] = fieldsSpAux rest [] := by
  induction k with
  | zero => rfl
  | succ k ih => simp [List.replicate_succ, fieldsSpAux, ih]

theorem fieldsSpAux_tok (rest : Bytes) : ∀ (tok cur : Bytes), SP ∉ tok →
    fieldsSpAux (tok ++ rest) cur = fieldsSpAux rest (tok.reverse ++ cur)
  | [], cur, _ => by simp
  | b :: tok, cur, h => by
    have hb : b ≠ SP := fun e => h (by simp [e])
    have ht : SP ∉ tok := fun e => h (by simp [e])
    simp [fieldsSpAux, hb, fieldsSpAux_tok rest tok (b :: cur) ht]

theorem fieldsSpAux_flush (rest cur : Bytes) (hr : SpLead rest) (hc : cur ≠ []) :
    fieldsSpAux rest cur = cur.reverse :: fieldsSpAux rest [] := by
  cases rest with
  | nil => simp [fieldsSpAux, hc]
  | cons x xs =>
    rcases hr with hr | hr
    · simp at hr
    · simp at hr
      subst hr
      simp [fieldsSpAux, hc]

theorem fieldsSp_drop1 (s : Bytes) (h : SpLead s) : fieldsSp (s.drop 1) = fieldsSp s := by
  cases s with
  | nil => rfl
  | cons x xs =>
    rcases h with h | h
    · simp at h
    · simp at h
      subst h
      simp [fieldsSp, fieldsSpAux]

theorem fieldsSp_renderMiddles (n : Nat) : ∀ (ms : List (Nat × Bytes)), (∀ m ∈ ms, WkMid m.2) →
    fieldsSp (renderMiddles ms ++ List.replicate n SP) = ms.map (·.2)
  | [], _ => by
    have := fieldsSpAux_replicate n []
    simpa [renderMiddles, fieldsSp, fieldsSpAux] using this
  | (k, tok) :: ms, h => by
    have ih := fieldsSp_renderMiddles n ms (fun m hm => h m (by simp [hm]))
    obtain ⟨hne, hsp, _⟩ := h (k, tok) (by simp)
    have hR : SpLead (renderMiddles ms ++ List.replicate n SP) :=
      spLead_renderMiddles_append ms _ (spLead_replicate n)
    unfold fieldsSp at ih ⊢
    simp only [renderMiddles, spaces, List.append_assoc, List.map_cons]
    rw [fieldsSpAux_replicate, fieldsSpAux_tok _ _ _ hsp,
      fieldsSpAux_flush _ _ hR (by simpa using hne), ih]
    simp

/-! ### `findTrailer` -/

theorem findTrailerAux_pos : ∀ (s : Bytes) (p : Bool) (pos : Nat),
    findTrailerAux s p pos = (findTrailerAux s p 0).map (· + pos)
  | [], _, _ => by simp [findTrailerAux]
  | b :: rest, p, pos => by
    unfold findTrailerAux
    by_cases hc : (b = COLON && p) = true
    · simp [hc]
    · simp only [hc]
      rw [findTrailerAux_pos rest _ (pos + 1), findTrailerAux_pos rest _ (0 + 1)]
      simp [Option.map_map, Function.comp_def, Nat.add_comm, Nat.add_left_comm]

theorem sp_ne_colon : SP ≠ COLON := by decide

theorem findTrailerAux_replicate (rest : Bytes) : ∀ (k : Nat) (p : Bool) (pos : Nat),
    findTrailerAux (List.replicate (k + 1) SP ++ rest) p pos = findTrailerAux rest true (pos + k + 1)
  | 0, p, pos => by
    simp [findTrailerAux, sp_ne_colon]
  | k + 1, p, pos => by
    have ih := findTrailerAux_replicate rest k true (pos + 1)
    rw [List.replicate_succ, List.cons_append, findTrailerAux]
    simp only [sp_ne_colon, decide_false, Bool.false_and, Bool.false_eq_true, if_false, decide_true]
    rw [ih]
    congr 1
    omega

theorem findTrailerAux_tok (rest : Bytes) : ∀ (tok : Bytes) (pos : Nat), SP ∉ tok →
    findTrailerAux (tok ++ rest) false pos = findTrailerAux rest false (pos + tok.length)
  | [], pos, _ => by simp
  | b :: tok, pos, h => by
    have hb : b ≠ SP := fun e => h (by simp [e])
    have ht : SP ∉ tok := fun e => h (by simp [e])
    rw [List.cons_append, findTrailerAux]
    simp only [Bool.and_false, Bool.false_eq_true, if_false, hb, decide_false]
    rw [findTrailerAux_tok rest tok (pos + 1) ht]
    congr 1
    simp; omega

theorem findTrailerAux_mid (rest tok : Bytes) (p : Bool) (pos : Nat) (h : WkMid tok) :
    findTrailerAux (tok ++ rest) p pos = findTrailerAux rest false (pos + tok.length) := by
  obtain ⟨hne, hsp, hc⟩ := h
  cases tok with
  | nil => exact absurd rfl hne
  | cons b tok =>
    have hb : b ≠ SP := fun e => hsp (by simp [e])
    have ht : SP ∉ tok := fun e => hsp (by simp [e])
    have hbc : b ≠ COLON := by simpa using hc
    rw [List.cons_append, findTrailerAux]
    simp only [hbc, decide_false, Bool.false_and, Bool.false_eq_true, if_false, hb]
    rw [findTrailerAux_tok rest tok (pos + 1) ht]
    congr 1
    simp; omega

theorem findTrailerAux_renderMiddles (rest : Bytes) : ∀ (ms : List (Nat × Bytes)) (pos : Nat),
    (∀ m ∈ ms, WkMid m.2) →
    findTrailerAux (renderMiddles ms ++ rest) false pos =
      findTrailerAux rest false (pos + (renderMiddles ms).length)
  | [], pos, _ => by simp [renderMiddles]
  | (k, tok) :: ms, pos, h => by
    have hm := h (k, tok) (by simp)
    simp only [renderMiddles, spaces, List.append_assoc]
    rw [findTrailerAux_replicate, findTrailerAux_mid _ _ _ _ hm,
      findTrailerAux_renderMiddles rest ms _ (fun m hm => h m (by simp [hm]))]
    congr 1
    simp; omega

theorem findTrailer_drop1 (s : Bytes) (h : SpLead s) :
    findTrailerAux s false 0 = (findTrailer (s.drop 1)).map (· + 1) := by
  cases s with
  | nil => simp [findTrailer, findTrailerAux]
  | cons x xs =>
    rcases h with h | h
    · simp at h
    · simp at h
      subst h
      rw [findTrailerAux]
      simp only [sp_ne_colon, decide_false, Bool.false_and, Bool.false_eq_true, if_false,
        decide_true, List.drop_one, List.tail_cons, findTrailer]
      rw [findTrailerAux_pos]

/-- The trailing part of a rendered line. -/
def trPart : Option (Nat × Bytes) → Bytes
  | some (n, t) => spaces n ++ COLON :: t
  | none => []

def trList : Option (Nat × Bytes) → List Bytes
  | some (_, t) => [t]
  | none => []

theorem parseParams_nil : parseParams [] = [] := by
  simp [parseParams, findTrailer, findTrailerAux, fieldsSp, fieldsSpAux]

theorem parseParams_render (ms : List (Nat × Bytes)) (tr : Option (Nat × Bytes))
    (h : ∀ m ∈ ms, WkMid m.2) :
    parseParams ((renderMiddles ms ++ trPart tr).drop 1) = ms.map (·.2) ++ trList tr := by
  cases tr with
  | none =>
    simp only [trPart, trList, List.append_nil]
    have hs : SpLead (renderMiddles ms) := by
      simpa using spLead_renderMiddles_append ms [] spLead_nil
    have h1 := findTrailerAux_renderMiddles [] ms 0 h
    simp only [List.append_nil, findTrailerAux] at h1
    rw [findTrailer_drop1 _ hs] at h1
    have h2 : findTrailer ((renderMiddles ms).drop 1) = none := by
      cases hft : findTrailer ((renderMiddles ms).drop 1) with
      | none => rfl
      | some q => rw [hft] at h1; simp at h1
    unfold parseParams
    rw [h2]
    simp only
    rw [fieldsSp_drop1 _ hs]
    simpa using fieldsSp_renderMiddles 0 ms h
  | some nt =>
    obtain ⟨n, t⟩ := nt
    simp only [trPart, trList]
    have hs : SpLead (renderMiddles ms ++ (spaces n ++ COLON :: t)) :=
      spLead_renderMiddles_append ms _ (spLead_spaces_append n _)
    have h1 := findTrailerAux_renderMiddles (spaces n ++ COLON :: t) ms 0 h
    rw [spaces, findTrailerAux_replicate, findTrailerAux] at h1
    simp only [decide_true, Bool.and_self, if_true] at h1
    rw [← spaces, findTrailer_drop1 _ hs] at h1
    generalize hL : (renderMiddles ms).length = L at h1
    have h2 : findTrailer ((renderMiddles ms ++ (spaces n ++ COLON :: t)).drop 1) = some (L + n) := by
      cases hft : findTrailer ((renderMiddles ms ++ (spaces n ++ COLON :: t)).drop 1) with
      | none => rw [hft] at h1; simp at h1
      | some q => rw [hft] at h1; simp at h1; simp; omega
    unfold parseParams
    rw [h2]
    simp only
    -- the decomposition of the string
    have hdec : renderMiddles ms ++ (spaces n ++ COLON :: t) =
        (renderMiddles ms ++ List.replicate n SP) ++ SP :: COLON :: t := by
      simp [spaces, List.replicate_succ']
    have hlen : (renderMiddles ms ++ List.replicate n SP).length = L + n := by simp [hL]
    have hdrop : ((renderMiddles ms ++ (spaces n ++ COLON :: t)).drop 1).drop (L + n + 1) = t := by
      rw [List.drop_drop, hdec]
      have : 1 + (L + n + 1) = (renderMiddles ms ++ List.replicate n SP).length + 2 := by omega
      rw [this, ← List.drop_drop, List.drop_left]
      rfl
    rw [hdrop]
    by_cases hp : L + n > 0
    · simp only [hp, if_true]
      have htake : ((renderMiddles ms ++ (spaces n ++ COLON :: t)).drop 1).take (L + n - 1) =
          (renderMiddles ms ++ List.replicate n SP).drop 1 := by
        rw [← List.drop_take, hdec]
        rw [← hlen, List.take_left]
      rw [htake, fieldsSp_drop1 _ (spLead_renderMiddles_append ms _ (spLead_replicate n)),
        fieldsSp_renderMiddles n ms h]
    · simp only [hp, if_false]
      have hL0 : L = 0 := by omega
      have : ms = [] := by
        cases ms with
        | nil => rfl
        | cons m ms =>
          obtain ⟨k, tok⟩ := m
          simp [renderMiddles, spaces] at hL
          omega
      simp [this]

end Girc.Proofs.ParseParams
