import Girc.Spec.Sim
import Girc.Proofs.InvHandlers
/-
  C04 proofs, part 1: the relation holds initially, it determines everything observable, and the
  account-tag step preserves it.
-/
namespace Girc.Proofs.SimBase
open Girc Girc.Model Girc.Spec

theorem sim_init : Sim ({} : St) ({} : Ref) := by sorry

/-- Related states show the same thing through the state API. -/
theorem observe_eq {st : St} {r : Ref} (h : Sim st r) : observe st = r.observe := by sorry

/-- The account-tag step. -/
theorem sim_tagStep {st : St} {r : Ref} (e : Event) (h : Sim st r) : Sim (handleTags st e) (r.tagStep e) := by sorry

/-- Conformance of a message only depends on who and what is known, which the tag step leaves alone. -/
theorem conformant_tagStep (cfg : Cfg) (r : Ref) (e : Event) :
    (r.tagStep e).conformant cfg e = r.conformant cfg e := by sorry

end Girc.Proofs.SimBase
