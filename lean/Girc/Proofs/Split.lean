import Girc.Spec.SplitSpec
import Girc.Spec.FormatSpec
import Girc.Proofs.SplitJoin
import Girc.Proofs.SplitEvent
import Girc.Proofs.SplitFits
import Girc.Proofs.SplitContent
namespace Girc.Proofs.Split
open Girc Girc.Model Girc.Spec

/-- No empty piece is ever returned (for every text, width and oracle). -/
theorem split_no_empty (isURL : Bytes → Bool) (t : Bytes) (w : Nat) :
    ∀ p ∈ splitMessage isURL t w, p ≠ [] := by
  exact SplitFits.split_no_empty isURL t w

/-- Plain text, any width ≥ 4 (one UTF-8 character always fits): every piece is at most `w` BYTES. -/
theorem split_fits (isURL : Bytes → Bool) (t : Bytes) (w : Nat) (hp : plainText t = true) (hw : 4 ≤ w) :
    ∀ p ∈ splitMessage isURL t w, p.length ≤ w := by
  exact SplitFits.split_fits isURL t w hp hw

/-- Plain text: the pieces' words, in order, are the original words, an over-long word possibly cut
    into consecutive chunks — for every oracle `isURL` and every width ≥ 4. (This also shows the
    recursion never runs out of fuel: lost fuel would lose content.) -/
theorem split_content (isURL : Bytes → Bool) (t : Bytes) (w : Nat) (hp : plainText t = true) (hw : 4 ≤ w) :
    Refines (pieceWords (splitMessage isURL t w)) (wordsOf t) := by
  exact SplitContent.split_content isURL t w hp hw

/-- Every piece of a split event keeps the command, the leading parameters, the source and the tags. -/
theorem evsplit_header (isURL : Bytes → Bool) (e : Event) (maxLength : Int) :
    ∀ p ∈ eventSplit isURL e maxLength, p.command = e.command ∧ p.source = e.source ∧ p.tags = e.tags ∧
      p.params.dropLast = e.params.dropLast ∧ p.params.length = e.params.length := by
  exact SplitEvent.evsplit_header isURL e maxLength

/-- A split CTCP message (ACTION …) keeps its wrapping on every piece. -/
theorem evsplit_ctcp (isURL : Bytes → Bool) (e : Event) (maxLength : Int) (c : CTCPEvent)
    (hc : decodeCTCP e = some c) (hsplit : eventSplit isURL e maxLength ≠ [e]) :
    ∀ p ∈ eventSplit isURL e maxLength, ∃ piece, p.params.getLastD [] = [ctcpDelim] ++ c.command ++ [SP] ++ piece ++ [ctcpDelim] := by
  exact SplitEvent.evsplit_ctcp isURL e maxLength c hc hsplit

/-- Plain text (not CTCP) and room for at least 4 bytes of text: every piece, serialised without its
    source as the server limit is computed, is at most `maxLength` bytes. -/
theorem evsplit_fits (isURL : Bytes → Bool) (e : Event) (maxLength : Int)
    (hcmd : e.command = PRIVMSG ∨ e.command = NOTICE) (hne : e.params ≠ [])
    (hp : plainText (e.params.getLastD []) = true) (hnc : decodeCTCP e = none)
    (hroom : (eventLen { e with source := none, params := e.params.dropLast ++ [[]] } : Int) + 4 ≤ maxLength) :
    ∀ p ∈ eventSplit isURL e maxLength, p = e ∨ (eventLen { p with source := none } : Int) ≤ maxLength := by
  have _ := hcmd
  have _ := hne
  exact SplitEvent.evsplit_fits_of isURL e maxLength
    (fun w hw => SplitFits.split_fits isURL _ w hp hw) hnc hroom

/-- Join / List: every given channel is sent exactly once, in order … -/
theorem join_all_once (max : Int) (chans : List Bytes) (h : ∀ c ∈ chans, c ≠ [] ∧ 0x2C ∉ c) :
    (joinBatches max chans).flatMap (splitOnByte 0x2C) = chans := by
  exact SplitJoin.join_all_once max chans h

/-- … in batches that fit, unless a single channel alone is too long. -/
theorem join_batches_fit (max : Int) (chans : List Bytes) :
    ∀ b ∈ joinBatches max chans, (b.length : Int) ≤ max ∨ b ∈ chans := by
  exact SplitJoin.join_batches_fit max chans

/-- MaxEventLength with the defaults: 512 − CRLF − (4 + 30 + 18 + 63) = 395. -/
theorem max_event_length_default (cfg : Cfg) : maxEventLength cfg {} = 512 - 2 - (4 + 30 + 18 + 63) := by
  exact SplitJoin.max_event_length_default cfg

/-- After an ISUPPORT line: the advertised LINELEN minus CRLF, and the prefix estimate from
    NICKLEN/MAXNICKLEN (NICKLEN as given, MAXNICKLEN only if larger), USERLEN/HOSTLEN (only if larger than
    the defaults), kept unchanged when it would not leave room. -/
theorem isupport_lengths (st : St) (e : Event) (h1 : isSuffixOfB sThisServer e.last = true) (h2 : 2 ≤ e.params.length) :
    let opts := ((e.params.drop 1).dropLast).foldl isupportItem st.serverOptions
    let oi (k : Bytes) : Option Int := (AMap.get? opts k).bind atoi
    let line : Int := (oi sLINELEN).getD st.maxLineLength
    let nick0 : Int := (oi sNICKLEN).getD 30
    let nick : Int := match oi sMAXNICKLEN with | some t => if t > nick0 then t else nick0 | none => nick0
    let user : Int := match oi sUSERLEN with | some t => if t > 18 then t else 18 | none => 18
    let host : Int := match oi sHOSTLEN with | some t => if t > 63 then t else 63 | none => 63
    (handleISUPPORT st e).maxLineLength = (match oi sLINELEN with | some t => t - 2 | none => st.maxLineLength) ∧
    (handleISUPPORT st e).maxPrefixLength = (if 4 + nick + user + host ≥ line then st.maxPrefixLength else 4 + nick + user + host) := by
  exact SplitJoin.isupport_lengths st e h1 h2

end Girc.Proofs.Split
