import Girc.Model.Handlers
import Girc.Model.Commands
import Girc.Model.Split
/-
  The sequential client core: a history of received lines is parsed and dispatched one event at a
  time (execLoop); locally injected events (ERROR) are processed after the event that injected them;
  an ERROR event ends the connection (`ErrEvent`), `Close` ends it cleanly. Also the canonical state
  dump (mirrors the `VerifDumpState` hook).
-/
namespace Girc.Model
open Girc

inductive Ended where
  | running | errEvent (text : Bytes) | closed | parseError
  deriving Repr, DecidableEq

structure Run where
  cs : CState := {}
  written : List Event := []        -- events handed to the send queue, oldest first
  ended : Ended := .running
  deriving Repr

/-- `Send`: optional `Fmt` of the last parameter (GlobalFormat), then `Event.split` against the
    current MaxEventLength; every piece goes to the send queue. -/
def sendPieces (cfg : Cfg) (isURL : Bytes → Bool) (st : St) (e : Event) : List Event :=
  let e := if cfg.globalFormat && e.params.length > 0 && !(e.params.getLastD []).isEmpty &&
        (e.command = PRIVMSG || e.command = cTOPIC || e.command = NOTICE) then
      { e with params := e.params.dropLast ++ [fmt (e.params.getLastD [])] }
    else e
  eventSplit isURL e (maxEventLength cfg st)

def applyOuts (cfg : Cfg) (isURL : Bytes → Bool) (r : Run) : List Out → Run × List Event
  | [] => (r, [])
  | o :: rest =>
    match o with
    | .write e => applyOuts cfg isURL { r with written := r.written ++ [e] } rest
    | .send e => applyOuts cfg isURL { r with written := r.written ++ sendPieces cfg isURL r.cs.st e } rest
    | .inject e => let (r', inj) := applyOuts cfg isURL r rest; (r', e :: inj)
    | .close => let (r', inj) := applyOuts cfg isURL r rest; ({ r' with ended := if r'.ended = .running then .closed else r'.ended }, inj)

/-- One event taken from the receive queue by `execLoop`. -/
def stepEvent (cfg : Cfg) (r : Run) (e : Event) (time idle : Bytes := []) (isURL : Bytes → Bool := fun _ => true) : M (Run × List Event) := do
  let (cs, outs) ← handleEvent cfg r.cs e time idle
  let (r, inj) := applyOuts cfg isURL { r with cs := cs } outs
  -- execLoop: after the handlers, an ERROR event makes Connect return ErrEvent
  let r := if e.command = cERROR && r.ended = .running then { r with ended := .errEvent e.last } else r
  .ok (r, inj)

/-- Process an event and then everything it injected (fuel bounds injection chains). -/
def stepAll (cfg : Cfg) (isURL : Bytes → Bool := fun _ => true) : Nat → Run → List Event → M Run
  | _, r, [] => .ok r
  | 0, r, _ => .ok r
  | fuel + 1, r, e :: queue =>
    if r.ended ≠ .running then .ok r
    else do
      let (r, inj) ← stepEvent cfg r e [] [] isURL
      stepAll cfg isURL fuel r (queue ++ inj)

/-- One line read by `readLoop`. -/
def stepLine (cfg : Cfg) (r : Run) (line : Bytes) (isURL : Bytes → Bool := fun _ => true) : M Run :=
  if r.ended ≠ .running then .ok r
  else match parseEvent line with
    | none => .ok { r with ended := .parseError }
    | some e => stepAll cfg isURL 8 r [e]

def runLines (cfg : Cfg) (r : Run) (lines : List Bytes) : M Run := lines.foldlM (fun r l => stepLine cfg r l) r

/-- A command helper called by the application (`Cmd.*`). -/
def stepCall (cfg : Cfg) (isURL : Bytes → Bool) (r : Run) (name : Bytes) (args : List Bytes) : Run :=
  if r.ended ≠ .running then r
  else (applyOuts cfg isURL r (helperOuts (maxEventLength cfg r.cs.st) name args)).1

/-! ### canonical dump -/

def natBytes (n : Nat) : Bytes := (toString n).toUTF8.toList
def intBytes (i : Int) : Bytes := (toString i).toUTF8.toList
def bbit (b : Bool) : Byte := if b then 0x31 else 0x30
def str (s : String) : Bytes := s.toUTF8.toList
def j0 (parts : List Bytes) : Bytes := joinWith [0x00] parts
def j1 (parts : List Bytes) : Bytes := joinWith [0x01] parts

def permBits (p : Perms) : Bytes := [bbit p.owner, bbit p.admin, bbit p.op, bbit p.halfop, bbit p.voice]

def sortedKeys {β : Type} (m : AMap β) : List Bytes := sortBytes (AMap.keys m).eraseDups

def dumpState (st : St) : List Bytes :=
  [str "nick=" ++ st.nick, str "ident=" ++ st.ident, str "host=" ++ st.host, str "motd=" ++ st.motd,
   str "maxline=" ++ intBytes st.maxLineLength, str "maxprefix=" ++ intBytes st.maxPrefixLength] ++
  (sortedKeys st.channels).filterMap (fun k => (AMap.get? st.channels k).map fun ch =>
    j0 [str "chan", k, ch.name, ch.topic, j1 ch.users, ch.modes.toBytes, ch.modes.raw, ch.modes.prefixes]) ++
  (sortedKeys st.users).filterMap (fun k => (AMap.get? st.users k).map fun u =>
    j0 [str "user", k, u.nick, u.ident, u.host, j1 u.chans, u.name, u.account, u.away,
        j1 ((sortedKeys u.perms).map fun c => c ++ [0x3D] ++ permBits ((AMap.get? u.perms c).getD {}))]) ++
  (sortBytes ((sortedKeys st.serverOptions).map fun k => k ++ [0x3D] ++ (AMap.get? st.serverOptions k).getD [])).map
    (fun kv => j0 [str "opt", kv]) ++
  [j0 [str "caps", j1 (sortedKeys st.enabledCap)], j0 [str "tmpcaps", j1 (sortedKeys st.tmpCap)],
   j0 [str "sts", intBytes st.sts.upgradePort, intBytes st.sts.persistenceDuration, [bbit st.sts.preload], [bbit st.sts.beginUpgrade]]]

/-- The wire form of a written event (`sendLoop`): tags only while message-tags is enabled. -/
def wireEvent (st : St) (e : Event) : Bytes :=
  let e := if e.tags.isSome && !(AMap.contains st.enabledCap sMessageTags) then { e with tags := some [] } else e
  eventBytes e

end Girc.Model
