import Lean
/-
  Audit: `lake env lean --run Girc/Audit.lean C15 [C19 ...]`
  For each property id, loads `Girc.Props.<id>` and prints one JSON object per line:
    {"property":"C15","theorem":"Girc.Props.C15.fold_idem","axioms":["propext"],"ok":true}
  `ok` is false when the theorem depends on anything beyond propext / Classical.choice / Quot.sound
  (this includes `sorryAx` and every `native_decide`/`bv_decide` axiom).
-/
open Lean

partial def collect (env : Environment) (n : Name) (seen : NameSet) (acc : Array Name) : NameSet × Array Name :=
  if seen.contains n then (seen, acc) else
  let seen := seen.insert n
  match env.find? n with
  | none => (seen, acc)
  | some ci =>
    let acc := match ci with
      | .axiomInfo _ => acc.push n
      | _ => acc
    let used := ci.getUsedConstantsAsSet
    used.foldl (fun (s, a) m => collect env m s a) (seen, acc)

def allowed : List Name := [``propext, ``Classical.choice, ``Quot.sound]

def main (args : List String) : IO UInt32 := do
  initSearchPath (← findSysroot)
  let mut bad := false
  for id in args do
    let modName := (`Girc.Props).str id
    let env ← importModules #[{ module := modName }] {}
    let pfx := modName
    let mut names : Array Name := #[]
    for (n, ci) in env.constants.toList do
      if pfx.isPrefixOf n && !n.isInternal then
        match ci with
        | .thmInfo _ => names := names.push n
        | _ => pure ()
    let sorted := names.qsort (fun a b => a.toString < b.toString)
    for n in sorted do
      let (_, axs) := collect env n {} #[]
      let ok := axs.all (fun a => allowed.contains a)
      if !ok then bad := true
      let axStr := ",".intercalate (axs.toList.map (fun a => "\"" ++ a.toString ++ "\""))
      IO.println s!"\{\"property\":\"{id}\",\"theorem\":\"{n}\",\"axioms\":[{axStr}],\"ok\":{ok}}"
  return (if bad then 1 else 0)
