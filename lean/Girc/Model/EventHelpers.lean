import Girc.Model.Ctcp
import Girc.Model.Names
/-
  Model of the small query helpers of event.go: (*Event).Last, IsCTCP, IsAction, StripAction, IsFromChannel,
  IsFromUser, and (*Source).ID, Equals, IsHostmask, IsServer.  List-functional definitions on non-nil receivers
  (a nil receiver is a nil dereference in Go, except for `Equals`, which compares nil with nil).
-/
namespace Girc.Model
open Girc

def CTCP_ACTION : Bytes := [0x41, 0x43, 0x54, 0x49, 0x4F, 0x4E]  -- "ACTION"

/-- `(*Event).Last()`: the last parameter, "" if there is none. -/
def eventLast (e : Event) : Bytes := e.params.getLastD []

/-- `(*Event).IsCTCP()`. -/
def isCTCP (e : Event) : Bool × Option CTCPEvent := ((decodeCTCP e).isSome, decodeCTCP e)

/-- `(*Event).IsAction()`: a PRIVMSG that carries a CTCP ACTION. -/
def isAction (e : Event) : Bool :=
  e.command == PRIVMSG &&
    (match decodeCTCP e with
     | some c => c.command == CTCP_ACTION
     | none => false)

/-- `(*Event).StripAction()`: the text of a `/me`, i.e. the last parameter without the leading `\x01ACTION ` (8 bytes)
    and the trailing `\x01`; any other event: the last parameter.  `none` = the Go code panics (`msg[8:len(msg)-1]`
    with `len(msg) = 8`: the bare `\x01ACTION\x01`). -/
def stripAction (e : Event) : Option Bytes :=
  if isAction e then
    (if (eventLast e).length < 9 then none else some (((eventLast e).drop 8).dropLast))
  else some (eventLast e)

/-- The common guard of `IsFromChannel` / `IsFromUser`: a sourced PRIVMSG/NOTICE; then the test on the target. -/
def isChatTo (test : Bytes → Bool) (e : Event) : Bool :=
  e.source.isSome && (e.command == PRIVMSG || e.command == NOTICE) &&
    (match e.params.head? with
     | some target => test target
     | none => false)

/-- `(*Event).IsFromChannel()`. -/
def isFromChannel (e : Event) : Bool := isChatTo isValidChannel e

/-- `(*Event).IsFromUser()`. -/
def isFromUser (e : Event) : Bool := isChatTo isValidNick e

/-- `(*Source).ID()`. -/
def sourceID (s : Source) : Bytes := fold s.name

/-- `(*Source).Equals(ss)`, nil receivers included. -/
def sourceEq : Option Source → Option Source → Bool
  | none, none => true
  | some a, some b => sourceID a == sourceID b && a.ident == b.ident && a.host == b.host
  | _, _ => false

/-- `(*Source).IsHostmask()`. -/
def isHostmask (s : Source) : Bool := s.ident.length > 0 && s.host.length > 0

/-- `(*Source).IsServer()`. -/
def isServer (s : Source) : Bool := s.ident.isEmpty && s.host.isEmpty

end Girc.Model
