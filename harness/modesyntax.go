package main

import (
	"strings"

	"github.com/lrstanley/girc"
)

// The three ISUPPORT syntax functions of modes.go (IsValidChannelMode, isValidUserPrefix, parsePrefixes): the real function
// vs the hand-written model vs the function body regenerated from the Go source.
func init() {
	genOps["chanmode"] = "gen.IsValidChannelMode"
	genOps["userprefix"] = "gen.isValidUserPrefix"
	genOps["parseprefixes"] = "gen.parsePrefixes"
	runners["modesyntax"] = func(c *Ctx, in map[string]string) {
		s := in["s"]
		c.compare("chanmode", in, bl(girc.IsValidChannelMode(s)), "chanmode", "", hx(s))
		c.compare("userprefix", in, bl(girc.VerifIsValidUserPrefix(s)), "userprefix", "", hx(s))
		pp := safely(func() string { m, p := girc.VerifParsePrefixes(s); return hx(m) + " " + hx(p) })
		c.compare("parseprefixes", in, pp, "parseprefixes", "", hx(s))
		if strings.HasPrefix(pp, "panic") && girc.VerifIsValidUserPrefix(s) {
			c.R.Violation("modes.prefix_panic", hexIn(in), pp, "", "a PREFIX value the validator accepts makes parsePrefixes panic (it runs under the state lock)")
		}
	}
}

func runModeSyntax(c *Ctx) {
	fixed := []string{"", "(", ")", "()", "(ov)@+", "(ov)@", "(o)@+", "(qaohv)~&@%+", "ov)@+", "(ov@+", "((ov))@+", "(ov)(@+)", "(ov))@+", "@+", "(ov)",
		"beI,k,l,imnpst", "b,k", ",", ",,,", "b,k,l,imn,extra", "b k", "b1", "é", "(\x00)\x00", "(o)\xff", "(ab)cd)", "(a)(b", ")(", "(()", "(o)@(v)+"}
	for _, s := range fixed {
		c.run("modesyntax", map[string]string{"s": s})
		c.R.Count("modesyntax\x00"+s, s != "", "modesyntax-fixed")
	}
	for i := 0; i < 400*c.Scale; i++ {
		s := c.Rng.From("()ov@+,abI~&%q \x00é", c.Rng.Intn(9))
		c.run("modesyntax", map[string]string{"s": s})
		c.R.Count("modesyntax\x00"+s, s != "", "modesyntax-random")
	}
}
