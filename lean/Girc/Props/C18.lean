import Girc.Proofs.Pure
import Girc.Gen.Facts
/- C18 — the command handler runs exactly the addressed command. Property theorems only. -/
namespace Girc.Props.C18
open Girc Girc.Model

/-- Tie: the two regular expressions in cmdhandler/cmd.go are the ones the hand matchers implement:
    `^%s([a-z0-9-_]{1,20})(?: (.*))?$` and `^[a-z0-9-_]{1,20}$`. -/
theorem gen_cmdMatch : Gen.str_cmdMatch = [0x5E, 0x25, 0x73, 0x28, 0x5B, 0x61, 0x2D, 0x7A, 0x30, 0x2D, 0x39, 0x2D, 0x5F, 0x5D, 0x7B, 0x31, 0x2C, 0x32, 0x30, 0x7D, 0x29, 0x28, 0x3F, 0x3A, 0x20, 0x28, 0x2E, 0x2A, 0x29, 0x29, 0x3F, 0x24] := by decide
theorem gen_validName : Gen.str_validName = [0x5E, 0x5B, 0x61, 0x2D, 0x7A, 0x30, 0x2D, 0x39, 0x2D, 0x5F, 0x5D, 0x7B, 0x31, 0x2C, 0x32, 0x30, 0x7D, 0x24] := by decide

theorem name_byte_spec : ∀ b : Byte, cmdNameByte b =
    ((0x61 ≤ b && b ≤ 0x7A) || (0x30 ≤ b && b ≤ 0x39) || b = 0x2D || b = 0x5F) := by decide +kernel

theorem matchCmd_iff (pfx text name rest : Bytes) :
    matchCmd pfx text = some (name, rest) ↔
      validCmdName name = true ∧ LF ∉ rest ∧
      (text = pfx ++ name ∧ rest = [] ∨ text = pfx ++ name ++ SP :: rest) :=
  Proofs.Pure.matchCmd_iff pfx text name rest

theorem invoke_iff (pfx : Bytes) (tbl : CmdTable) (e : Event) (id : Nat) (args : List Bytes) (raw : Bytes) :
    cmdExecute pfx tbl e = .invoke id args raw ↔
      e.source.isSome ∧ e.command = PRIVMSG ∧
      ∃ name c, matchCmd pfx (e.params.getLastD []) = some (name, raw) ∧ name ≠ HELP ∧
        AMap.get? tbl name = some c ∧ c.id = id ∧
        args = (if raw.isEmpty then [] else splitOnByte SP raw) ∧ c.minArgs ≤ (args.length : Int) :=
  Proofs.Pure.execute_invoke_iff pfx tbl e id args raw

theorem usage_iff (pfx : Bytes) (tbl : CmdTable) (e : Event) (name : Bytes) :
    cmdExecute pfx tbl e = .usage name ↔
      e.source.isSome ∧ e.command = PRIVMSG ∧
      ∃ raw c, matchCmd pfx (e.params.getLastD []) = some (name, raw) ∧ name ≠ HELP ∧
        AMap.get? tbl name = some c ∧
        (((if raw.isEmpty then [] else splitOnByte SP raw).length : Int) < c.minArgs) :=
  Proofs.Pure.execute_usage_iff pfx tbl e name

theorem nothing_else (pfx : Bytes) (tbl : CmdTable) (e : Event)
    (h : e.source = none ∨ e.command ≠ PRIVMSG ∨ matchCmd pfx (e.params.getLastD []) = none ∨
         (∃ name raw, matchCmd pfx (e.params.getLastD []) = some (name, raw) ∧ name ≠ HELP ∧ AMap.get? tbl name = none)) :
    cmdExecute pfx tbl e = .none := Proofs.Pure.execute_nothing_else pfx tbl e h

theorem add_result (tbl : CmdTable) (cmd : Command) :
    let name := toLowerAscii cmd.name
    let aliases := cmd.aliases.map toLowerAscii
    ((cmdAdd tbl cmd).2 = .invalidName ↔ (validCmdName name = false ∨ ∃ a ∈ aliases, validCmdName a = false)) ∧
    ((cmdAdd tbl cmd).2 = .duplicateName → AMap.contains tbl name = true ∧ (cmdAdd tbl cmd).1 = tbl) ∧
    ((cmdAdd tbl cmd).2 = .ok → ∀ n ∈ name :: aliases, ∃ c, AMap.get? (cmdAdd tbl cmd).1 n = some c ∧ c.id = cmd.id) :=
  Proofs.Pure.add_result tbl cmd

/-- "!say a  b" with prefix "!": invoked with args ["a","","b"] (split on single spaces). -/
example : cmdExecute [0x21] (cmdAdd [] ⟨[0x73, 0x61, 0x79], [], 1, false, 7⟩).1
    { source := some ⟨[0x6E], [], []⟩, command := PRIVMSG, params := [[0x23], [0x21, 0x73, 0x61, 0x79, 0x20, 0x61, 0x20, 0x20, 0x62]] }
    = .invoke 7 [[0x61], [], [0x62]] [0x61, 0x20, 0x20, 0x62] := by decide

end Girc.Props.C18
