import Girc.Model.Ctcp
import Girc.Model.Sasl
import Girc.Model.Rate
import Girc.Model.CmdHandler
import Girc.Spec.NameSpec
import Girc.Proofs.PureAux
/-
  Proof obligations for the small pure codecs (C09 chunking/base64, C14 codec, C16 arithmetic, C18).
-/
namespace Girc.Proofs.Pure
open Girc Girc.Model Girc.Proofs.PureAux

/-! ## C14 codec -/

def upperOrDigit (cmd : Bytes) : Bool := cmd.all Spec.isUpperOrDigit

theorem ctcp_decode_encode (c tgt cmd text : Bytes) (src : Option Source) (tags : Option Tags)
    (hc : c = PRIVMSG ∨ c = NOTICE) (hne : cmd ≠ []) (hcmd : upperOrDigit cmd = true) :
    decodeCTCP { tags := tags, source := src, command := c, params := [tgt, encodeCTCPRaw cmd text] } =
      some ⟨src, cmd, text, c == NOTICE⟩ := by
  rw [decodeCTCP_two _ tgt (encodeCTCPRaw cmd text) rfl]
  have hsp := sp_not_mem cmd hcmd
  have hall : cmd.all ctcpTagByte = true := by rw [ctcpTagByte_funeq]; exact hcmd
  have henc : encodeCTCPRaw cmd text = ctcpDelim :: (cmd ++ (if text.length > 0 then SP :: text else [])) ++ [ctcpDelim] := by
    unfold encodeCTCPRaw
    have : cmd.isEmpty = false := by cases cmd <;> simp_all
    simp [this]
  have hlen : ¬ (encodeCTCPRaw cmd text).length < 3 := by
    rw [henc]
    cases cmd with
    | nil => exact absurd rfl hne
    | cons a as => simp; omega
  rw [if_neg hlen]
  have hcc : ((c != PRIVMSG) && (c != NOTICE)) = false := by
    rcases hc with rfl | rfl <;> decide
  simp only [hcc]
  have hd : ((encodeCTCPRaw cmd text).head? != some ctcpDelim || (encodeCTCPRaw cmd text).getLast? != some ctcpDelim) = false := by
    rw [henc, mid_last]; simp
  simp only [hd]
  have ht : ((encodeCTCPRaw cmd text).drop 1).dropLast = cmd ++ (if text.length > 0 then SP :: text else []) := by
    rw [henc]; exact mid_text _
  simp only [ht]
  cases text with
  | nil =>
    simp only [List.length_nil, Nat.lt_irrefl, if_false, List.append_nil]
    rw [indexOf_none SP cmd hsp]
    simp [hall]
  | cons t ts =>
    simp only [List.length_cons, Nat.zero_lt_succ, if_true]
    rw [indexOf_append SP cmd (t :: ts) hsp]
    simp [hall]

/-- Anything not delimited by 0x01 on both ends is not CTCP. -/
theorem ctcp_not_delimited (e : Event) (tgt p : Bytes) (hp : e.params = [tgt, p])
    (h : p.head? ≠ some ctcpDelim ∨ p.getLast? ≠ some ctcpDelim) : decodeCTCP e = none := by
  rw [decodeCTCP_two e tgt p hp]
  split
  · rfl
  split
  · rfl
  rw [if_pos]
  rcases h with h | h <;> simp [h]

/-- A tag (the bytes between the first delimiter and the first SPACE / the closing delimiter) containing
    a byte outside A–Z/0–9 is not CTCP. -/
theorem ctcp_bad_tag (e : Event) (tgt tag rest : Bytes) (hsp : SP ∉ tag)
    (hp : e.params = [tgt, ctcpDelim :: tag ++ rest ++ [ctcpDelim]]) (hrest : rest = [] ∨ rest.head? = some SP)
    (hbad : ∃ b ∈ tag, Spec.isUpperOrDigit b = false) : decodeCTCP e = none := by
  rw [decodeCTCP_two e tgt _ hp]
  split
  · rfl
  split
  · rfl
  split
  · rfl
  have hall := all_false_of_bad tag hbad
  have ht : ((ctcpDelim :: tag ++ rest ++ [ctcpDelim]).drop 1).dropLast = tag ++ rest := by
    have := mid_text (tag ++ rest)
    simp
  simp only [ht]
  rcases hrest with rfl | hr
  · simp only [List.append_nil]
    rw [indexOf_none SP tag hsp]
    simp [hall]
  · match rest, hr with
    | c :: r, hr =>
      simp at hr
      subst hr
      rw [indexOf_append SP tag r hsp]
      simp [hall]

/-- Other commands and other parameter counts are never CTCP. -/
theorem ctcp_wrong_shape (e : Event) (h : (e.command ≠ PRIVMSG ∧ e.command ≠ NOTICE) ∨ e.params.length ≠ 2) :
    decodeCTCP e = none := by
  match hp : e.params with
  | [tgt, p] =>
    rw [decodeCTCP_two e tgt p hp]
    rcases h with ⟨h1, h2⟩ | h
    · simp [h1, h2]
    · simp [hp] at h
  | [] => unfold decodeCTCP; rw [hp]
  | [_] => unfold decodeCTCP; rw [hp]
  | _ :: _ :: _ :: _ => unfold decodeCTCP; rw [hp]

/-! ## C09 chunking and base64 -/

theorem b64_roundtrip (x : Bytes) : b64Decode (b64Encode x) = some x := by
  exact b64_roundtrip_aux x

/-- The payload chunks: everything, minus the lone "+" terminator when the length is a multiple of 400. -/
def payloads (auth : Bytes) : List Bytes :=
  if auth.length % 400 = 0 then (saslChunks auth).dropLast else saslChunks auth

theorem chunks_exact (auth : Bytes) (hne : auth ≠ []) :
    (payloads auth).flatten = auth ∧
    (∀ c ∈ payloads auth, 1 ≤ c.length ∧ c.length ≤ 400) ∧
    (∀ c ∈ (payloads auth).dropLast, c.length = 400) ∧
    (auth.length % 400 = 0 → (saslChunks auth).getLast? = some PLUS ∧ ((payloads auth).getLast?.map List.length) = some 400) ∧
    (auth.length % 400 ≠ 0 → ((saslChunks auth).getLast?.map List.length) = some (auth.length % 400)) := by
  rcases chunkShape auth hne with ⟨Q, last, hL, hQ, hcase⟩
  unfold payloads
  rw [hL]
  rcases hcase with ⟨h0, hl, hf, hQne⟩ | ⟨h0, hl, hf⟩
  · rw [if_pos h0, List.dropLast_concat]
    refine ⟨hf, ?_, ?_, ?_, fun h => absurd h0 h⟩
    · intro c hc; rw [hQ c hc]; omega
    · intro c hc; exact hQ c (mem_of_mem_dropLast hc)
    · intro _
      refine ⟨by simp [hl], ?_⟩
      have hm : Q.getLast hQne ∈ Q := List.getLast_mem hQne
      rw [List.getLast?_eq_some_getLast hQne]
      simp [hQ _ hm]
  · rw [if_neg h0, List.dropLast_concat]
    refine ⟨hf, ?_, hQ, fun h => absurd h h0, ?_⟩
    · intro c hc
      rcases List.mem_append.mp hc with hc | hc
      · rw [hQ c hc]; omega
      · simp at hc; rw [hc, hl]; omega
    · intro _; simp [hl]

/-! ## C16 arithmetic -/

theorem cost_exact (n : Nat) : cost n = second + (n : Int) * 10000000 := by
  exact cost_eq n

/-- The delay is either nothing or exactly the event's cost, and it is the cost exactly when the
    outstanding allowance is exceeded. -/
theorem delay_exact (wd since : Int) (n : Nat) :
    ((rate wd since n).2 = 0 ∨ (rate wd since n).2 = cost n) ∧
    ((rate wd since n).2 = cost n ↔ (rate wd since n).1 > 8 * second) ∧ 0 ≤ (rate wd since n).1 := by
  exact rate_facts wd since n

/-- One call of a serial sender: observed idle time `since ≥ 0`, event size, and scheduling slack
    `extra ≥ 0` (the event is written at least `delay` after the call). -/
structure Step where
  since : Int
  chars : Nat
  extra : Int

/-- Runs a serial trace: returns (final writeDelay, wall-clock elapsed between the write before the
    first call and the last write, total cost of the events). -/
def runTrace : Int → List Step → Int × Int × Int
  | wd, [] => (wd, 0, 0)
  | wd, s :: rest =>
    let (wd', d) := rate wd s.since s.chars
    let (wdf, el, tot) := runTrace wd' rest
    (wdf, s.since + d + s.extra + el, cost s.chars + tot)

theorem runTrace_cons (wd : Int) (s : Step) (rest : List Step) :
    runTrace wd (s :: rest) =
      ((runTrace (rate wd s.since s.chars).1 rest).1,
       s.since + (rate wd s.since s.chars).2 + s.extra + (runTrace (rate wd s.since s.chars).1 rest).2.1,
       cost s.chars + (runTrace (rate wd s.since s.chars).1 rest).2.2) := rfl

theorem leaky_inv (tr : List Step) : ∀ (wd : Int), 0 ≤ wd →
    (∀ s ∈ tr, 0 ≤ s.since ∧ 0 ≤ s.extra) →
    (runTrace wd tr).2.2 + min wd (8 * second) ≤ min (runTrace wd tr).1 (8 * second) + (runTrace wd tr).2.1 := by
  induction tr with
  | nil => intro wd _ _; simp [runTrace]
  | cons s rest ih =>
    intro wd hwd h
    have hs := h s (by simp)
    have hrest : ∀ s ∈ rest, 0 ≤ s.since ∧ 0 ≤ s.extra := fun t ht => h t (by simp [ht])
    have hd := rate_facts wd s.since s.chars
    have ih' := ih (rate wd s.since s.chars).1 hd.2.2 hrest
    rw [runTrace_cons]
    simp only
    have h1 := rate_fst wd s.since s.chars
    have h2 := rate_snd wd s.since s.chars
    have hc := cost_ge s.chars
    generalize (runTrace (rate wd s.since s.chars).1 rest) = r at *
    generalize (rate wd s.since s.chars).1 = w' at *
    generalize (rate wd s.since s.chars).2 = d at *
    generalize cost s.chars = c at *
    unfold second at *
    omega

/-- Leaky bucket: over ANY window of a serial trace, the total cost written is at most the 8 s
    allowance plus the wall-clock time the window took. -/
theorem leaky_bucket (wd : Int) (tr : List Step) (hwd : 0 ≤ wd)
    (h : ∀ s ∈ tr, 0 ≤ s.since ∧ 0 ≤ s.extra) :
    (runTrace wd tr).2.2 ≤ 8 * second + (runTrace wd tr).2.1 := by
  have := leaky_inv tr wd hwd h
  unfold second at *
  omega

theorem tot_ge (tr : List Step) : ∀ wd : Int, (tr.length : Int) * second ≤ (runTrace wd tr).2.2 := by
  induction tr with
  | nil => intro wd; simp [runTrace]
  | cons s rest ih =>
    intro wd
    rw [runTrace_cons]
    have := ih (rate wd s.since s.chars).1
    have hc := cost_ge s.chars
    simp only [List.length_cons]
    generalize (runTrace (rate wd s.since s.chars).1 rest).2.2 = t at *
    unfold second at *
    push_cast
    omega

/-- Hence at most `8 + T` events are written in any window of `T` seconds. -/
theorem message_rate (wd : Int) (tr : List Step) (hwd : 0 ≤ wd)
    (h : ∀ s ∈ tr, 0 ≤ s.since ∧ 0 ≤ s.extra) :
    (tr.length : Int) * second ≤ 8 * second + (runTrace wd tr).2.1 := by
  exact Int.le_trans (tot_ge tr wd) (leaky_bucket wd tr hwd h)

/-! ## C18 -/

/-- The regexp match, characterised: the text is prefix ++ name [++ " " ++ rest]. -/
theorem matchCmd_iff (pfx text name rest : Bytes) :
    matchCmd pfx text = some (name, rest) ↔
      validCmdName name = true ∧ LF ∉ rest ∧
      (text = pfx ++ name ∧ rest = [] ∨ text = pfx ++ name ++ SP :: rest) := by
  constructor
  · intro h
    by_cases hp : pfx.isPrefixOf text = true
    · rw [List.isPrefixOf_iff_prefix] at hp
      rcases hp with ⟨t, rfl⟩
      rw [matchCmd_drop] at h
      have hall := all_takeWhile cmdNameByte t
      have happ := List.takeWhile_append_dropWhile (p := cmdNameByte) (l := t)
      split at h
      · cases h
      · rename_i hlen
        simp only [Bool.or_eq_true, decide_eq_true_eq, not_or] at hlen
        split at h
        · rename_i hd
          simp only [Option.some.injEq, Prod.mk.injEq] at h
          rcases h with ⟨hn, hr⟩
          subst hr
          rw [hd, List.append_nil] at happ
          rw [hn] at happ hall hlen
          refine ⟨(validCmdName_iff _).2 ⟨by omega, by omega, hall⟩, by simp, Or.inl ⟨by rw [happ], rfl⟩⟩
        · rename_i c r hd
          split at h
          · rename_i hc
            simp only [Option.some.injEq, Prod.mk.injEq] at h
            rcases h with ⟨hn, hr⟩
            subst hr
            simp only [Bool.and_eq_true, decide_eq_true_eq, Bool.not_eq_true', List.contains_eq_mem, decide_eq_false_iff_not] at hc
            rw [hd, hc.1] at happ
            rw [hn] at happ hall hlen
            refine ⟨(validCmdName_iff _).2 ⟨by omega, by omega, hall⟩, hc.2, Or.inr ?_⟩
            rw [List.append_assoc, happ]
          · cases h
    · rw [matchCmd_not_prefix pfx text ((Bool.not_eq_true _).mp hp)] at h
      cases h
  · rintro ⟨hv, hlf, h⟩
    rw [validCmdName_iff] at hv
    rcases h with ⟨rfl, rfl⟩ | rfl
    · rw [matchCmd_drop]
      have := takeWhile_all cmdNameByte name hv.2.2
      rw [this.1, this.2]
      have hcond : (decide (name.length < 1) || decide (name.length > 20)) = false := by
        simp only [Bool.or_eq_false_iff, decide_eq_false_iff_not]; omega
      simp only [hcond]; simp
    · rw [List.append_assoc, matchCmd_drop]
      have := takeWhile_app cmdNameByte name SP rest hv.2.2 sp_not_name
      rw [this.1, this.2]
      have hcond : (decide (name.length < 1) || decide (name.length > 20)) = false := by
        simp only [Bool.or_eq_false_iff, decide_eq_false_iff_not]; omega
      simp only [hcond]; simp [hlf]

theorem execute_invoke_iff (pfx : Bytes) (tbl : CmdTable) (e : Event) (id : Nat) (args : List Bytes) (raw : Bytes) :
    cmdExecute pfx tbl e = .invoke id args raw ↔
      e.source.isSome ∧ e.command = PRIVMSG ∧
      ∃ name c, matchCmd pfx (e.params.getLastD []) = some (name, raw) ∧ name ≠ HELP ∧
        AMap.get? tbl name = some c ∧ c.id = id ∧
        args = (if raw.isEmpty then [] else splitOnByte SP raw) ∧ c.minArgs ≤ (args.length : Int) := by
  constructor
  · intro h
    by_cases hg : e.source.isSome ∧ e.command = PRIVMSG
    · refine ⟨hg.1, hg.2, ?_⟩
      cases hm : matchCmd pfx (e.params.getLastD []) with
      | none => rw [cmdExecute_nomatch pfx tbl e hm] at h; cases h
      | some nr =>
        rcases nr with ⟨name, raw'⟩
        by_cases hn : name = HELP
        · subst hn
          rcases cmdExecute_help pfx tbl e raw' hm with ⟨k, hk | hk⟩ <;> rw [hk] at h <;> cases h
        · rw [cmdExecute_match pfx tbl e name raw' hg.1 hg.2 hm hn] at h
          cases hget : AMap.get? tbl name with
          | none => rw [hget] at h; cases h
          | some c =>
            rw [hget] at h
            simp only at h
            by_cases hlt : (((if raw'.isEmpty then [] else splitOnByte SP raw').length : Nat) : Int) < c.minArgs
            · rw [if_pos hlt] at h; cases h
            · rw [if_neg hlt] at h
              simp only [CmdAction.invoke.injEq] at h
              rcases h with ⟨h1, h2, h3⟩
              subst h3
              refine ⟨name, c, rfl, hn, hget, h1, h2.symm, ?_⟩
              rw [← h2]
              omega
    · rw [cmdExecute_guard pfx tbl e hg] at h; cases h
  · rintro ⟨hs, hc, name, c, hm, hn, hget, hid, hargs, hmin⟩
    rw [cmdExecute_match pfx tbl e name raw hs hc hm hn, hget]
    simp only
    rw [← hargs, if_neg (by omega), hid]

theorem execute_usage_iff (pfx : Bytes) (tbl : CmdTable) (e : Event) (name : Bytes) :
    cmdExecute pfx tbl e = .usage name ↔
      e.source.isSome ∧ e.command = PRIVMSG ∧
      ∃ raw c, matchCmd pfx (e.params.getLastD []) = some (name, raw) ∧ name ≠ HELP ∧
        AMap.get? tbl name = some c ∧
        (((if raw.isEmpty then [] else splitOnByte SP raw).length : Int) < c.minArgs) := by
  constructor
  · intro h
    by_cases hg : e.source.isSome ∧ e.command = PRIVMSG
    · refine ⟨hg.1, hg.2, ?_⟩
      cases hm : matchCmd pfx (e.params.getLastD []) with
      | none => rw [cmdExecute_nomatch pfx tbl e hm] at h; cases h
      | some nr =>
        rcases nr with ⟨name', raw'⟩
        by_cases hn : name' = HELP
        · subst hn
          rcases cmdExecute_help pfx tbl e raw' hm with ⟨k, hk | hk⟩ <;> rw [hk] at h <;> cases h
        · rw [cmdExecute_match pfx tbl e name' raw' hg.1 hg.2 hm hn] at h
          cases hget : AMap.get? tbl name' with
          | none => rw [hget] at h; cases h
          | some c =>
            rw [hget] at h
            simp only at h
            by_cases hlt : (((if raw'.isEmpty then [] else splitOnByte SP raw').length : Nat) : Int) < c.minArgs
            · rw [if_pos hlt] at h
              simp only [CmdAction.usage.injEq] at h
              subst h
              exact ⟨raw', c, rfl, hn, hget, hlt⟩
            · rw [if_neg hlt] at h; cases h
    · rw [cmdExecute_guard pfx tbl e hg] at h; cases h
  · rintro ⟨hs, hc, raw, c, hm, hn, hget, hlt⟩
    rw [cmdExecute_match pfx tbl e name raw hs hc hm hn, hget]
    simp only
    rw [if_pos hlt]

/-- No other message invokes anything. -/
theorem execute_nothing_else (pfx : Bytes) (tbl : CmdTable) (e : Event)
    (h : e.source = none ∨ e.command ≠ PRIVMSG ∨ matchCmd pfx (e.params.getLastD []) = none ∨
         (∃ name raw, matchCmd pfx (e.params.getLastD []) = some (name, raw) ∧ name ≠ HELP ∧ AMap.get? tbl name = none)) :
    cmdExecute pfx tbl e = .none := by
  rcases h with h | h | h | ⟨name, raw, hm, hn, hget⟩
  · exact cmdExecute_guard pfx tbl e (by simp [h])
  · exact cmdExecute_guard pfx tbl e (by simp [h])
  · exact cmdExecute_nomatch pfx tbl e h
  · by_cases hg : e.source.isSome ∧ e.command = PRIVMSG
    · rw [cmdExecute_match pfx tbl e name raw hg.1 hg.2 hm hn, hget]
    · exact cmdExecute_guard pfx tbl e hg

/-- Registration is rejected exactly for invalid or duplicate names/aliases. -/
theorem add_result (tbl : CmdTable) (cmd : Command) :
    let name := toLowerAscii cmd.name
    let aliases := cmd.aliases.map toLowerAscii
    ((cmdAdd tbl cmd).2 = .invalidName ↔ (validCmdName name = false ∨ ∃ a ∈ aliases, validCmdName a = false)) ∧
    ((cmdAdd tbl cmd).2 = .duplicateName → AMap.contains tbl name = true ∧ (cmdAdd tbl cmd).1 = tbl) ∧
    ((cmdAdd tbl cmd).2 = .ok → ∀ n ∈ name :: aliases, ∃ c, AMap.get? (cmdAdd tbl cmd).1 n = some c ∧ c.id = cmd.id) := by
  intro name aliases
  generalize hcmd' : (⟨toLowerAscii cmd.name, cmd.aliases.map toLowerAscii,
      if cmd.minArgs < 0 then 0 else cmd.minArgs, cmd.hasHelp, cmd.id⟩ : Command) = cmd'
  have hid : cmd'.id = cmd.id := by rw [← hcmd']
  have hadd : cmdAdd tbl cmd =
      if !validCmdName name then (tbl, .invalidName)
      else if !aliases.all validCmdName then (tbl, .invalidName)
      else if AMap.contains tbl name then (tbl, .duplicateName)
      else cmdAddAliases (AMap.set tbl name cmd') cmd' aliases := by
    rw [← hcmd']; rfl
  by_cases h1 : validCmdName name = true
  · by_cases h2 : aliases.all validCmdName = true
    · have h2' : ¬ (validCmdName name = false ∨ ∃ a ∈ aliases, validCmdName a = false) := by
        rintro (hf | ⟨a, ha, hf⟩)
        · rw [h1] at hf; cases hf
        · rw [List.all_eq_true] at h2
          rw [h2 a ha] at hf; cases hf
      by_cases h3 : AMap.contains tbl name = true
      · have hres : cmdAdd tbl cmd = (tbl, .duplicateName) := by
          rw [hadd]; simp only [h1, h2, h3, Bool.not_true, Bool.false_eq_true, if_false, if_true]
        rw [hres]
        refine ⟨⟨?_, ?_⟩, ?_, ?_⟩
        · intro h; cases h
        · intro h; exact absurd h h2'
        · intro _; exact ⟨h3, rfl⟩
        · intro h; cases h
      · have hres : cmdAdd tbl cmd = cmdAddAliases (AMap.set tbl name cmd') cmd' aliases := by
          rw [hadd]; simp only [h1, h2, h3, Bool.not_true, Bool.false_eq_true, if_false]
        rw [hres]
        rcases addAliases_res cmd' aliases (AMap.set tbl name cmd') with hr | hr
        · have hok := addAliases_ok cmd' aliases (AMap.set tbl name cmd') hr
          refine ⟨⟨?_, ?_⟩, ?_, ?_⟩
          · intro h; rw [hr] at h; cases h
          · intro h; exact absurd h h2'
          · intro h; rw [hr] at h; cases h
          · intro _ n hn
            refine ⟨cmd', ?_, hid⟩
            rcases List.mem_cons.mp hn with rfl | hn
            · apply hok.1
              rw [TagsAux.get?_set]; simp
            · exact hok.2 n hn
        · refine ⟨⟨?_, ?_⟩, ?_, ?_⟩
          · intro h; rw [hr] at h; cases h
          · intro h; exact absurd h h2'
          · intro h; rw [hr] at h; cases h
          · intro h; rw [hr] at h; cases h
    · have h2f : aliases.all validCmdName = false := (Bool.not_eq_true _).mp h2
      have h2' : ∃ a ∈ aliases, validCmdName a = false := by
        have := h2f
        rw [List.all_eq_false] at this
        rcases this with ⟨a, ha, hf⟩
        exact ⟨a, ha, (Bool.not_eq_true _).mp hf⟩
      have hres : cmdAdd tbl cmd = (tbl, .invalidName) := by
        rw [hadd]; simp only [h1, h2f, Bool.not_true, Bool.not_false, Bool.false_eq_true, if_false, if_true]
      rw [hres]
      refine ⟨⟨?_, ?_⟩, ?_, ?_⟩
      · intro _; exact Or.inr h2'
      · intro _; rfl
      · intro h; cases h
      · intro h; cases h
  · have h1f : validCmdName name = false := (Bool.not_eq_true _).mp h1
    have hres : cmdAdd tbl cmd = (tbl, .invalidName) := by
      rw [hadd]; simp only [h1f, Bool.not_false, if_true]
    rw [hres]
    refine ⟨⟨?_, ?_⟩, ?_, ?_⟩
    · intro _; exact Or.inl h1f
    · intro _; rfl
    · intro h; cases h
    · intro h; cases h

end Girc.Proofs.Pure
