import Girc.Spec.SplitSpec
import Girc.Proofs.SplitUtf8
/-
  `splitWords` (FieldsFunc on TAB VT FF SPACE U+0085 U+00A0): separator-free chunks, re-splitting a line
  built from chunks and SPACEs, and the decomposition "first word, separator, rest".
-/
namespace Girc.Proofs.SplitSep
open Girc Girc.Model Girc.Spec Girc.Proofs.Utf8 Girc.Proofs.RoundtripUtf8 Girc.Proofs.SplitUtf8

def sep1 (b : Byte) : Bool := b = 0x09 || b = 0x0B || b = 0x0C || b = 0x20
def sep2 (b c : Byte) : Bool := b = 0xC2 && (c = 0x85 || c = 0xA0)

theorem sepLen_nil : sepLen [] = 0 := rfl

theorem sepLen_single (b : Byte) : sepLen [b] = if sep1 b then 1 else 0 := by
  unfold sepLen sep1
  split <;> simp_all

theorem sepLen_cons2 (b c : Byte) (r : Bytes) :
    sepLen (b :: c :: r) = if sep1 b then 1 else if sep2 b c then 2 else 0 := by
  unfold sepLen sep1 sep2
  split <;> simp_all

theorem sep2_SP (b : Byte) : sep2 b SP = false := by
  unfold sep2 SP; simp

theorem sepLen_le_length (s : Bytes) : sepLen s ≤ s.length := by
  match s with
  | [] => simp [sepLen_nil]
  | [b] => rw [sepLen_single]; split <;> simp
  | b :: c :: r =>
    rw [sepLen_cons2]
    split
    · simp
    · split <;> simp

/-- No separator rune anywhere (checked at every byte position, as `FieldsFunc` effectively does on
    valid UTF-8). -/
def sepFree : Bytes → Bool
  | [] => true
  | [b] => !sep1 b
  | b :: c :: r => !sep1 b && !sep2 b c && sepFree (c :: r)

theorem sepFree_cons_cons (b c : Byte) (r : Bytes) :
    sepFree (b :: c :: r) = (!sep1 b && !sep2 b c && sepFree (c :: r)) := rfl

theorem sepFree_tail : ∀ (b : Byte) (r : Bytes), sepFree (b :: r) = true → sepFree r = true
  | _, [], _ => rfl
  | b, c :: r, h => by
    rw [sepFree_cons_cons] at h
    simp only [Bool.and_eq_true] at h
    exact h.2

theorem sepFree_head : ∀ (b : Byte) (r : Bytes), sepFree (b :: r) = true → sep1 b = false
  | _, [], h => by simpa [sepFree] using h
  | b, c :: r, h => by
    rw [sepFree_cons_cons] at h
    simp only [Bool.and_eq_true, Bool.not_eq_true'] at h
    exact h.1.1

theorem sepFree_append_right : ∀ (a b : Bytes), sepFree (a ++ b) = true → sepFree b = true
  | [], _, h => h
  | x :: a, b, h => sepFree_append_right a b (sepFree_tail x _ h)

theorem sepFree_append_left : ∀ (a b : Bytes), sepFree (a ++ b) = true → sepFree a = true
  | [], _, _ => rfl
  | [x], b, h => by
    have := sepFree_head x b h
    simp [sepFree, this]
  | x :: y :: a, b, h => by
    have ih := sepFree_append_left (y :: a) b (sepFree_tail x _ h)
    simp only [List.cons_append] at h
    rw [sepFree_cons_cons] at h ⊢
    simp only [Bool.and_eq_true] at h ⊢
    exact ⟨h.1, ih⟩

theorem sepFree_take (n : Nat) (w : Bytes) (h : sepFree w = true) : sepFree (w.take n) = true :=
  sepFree_append_left _ (w.drop n) (by rw [List.take_append_drop]; exact h)

theorem sepFree_drop (n : Nat) (w : Bytes) (h : sepFree w = true) : sepFree (w.drop n) = true :=
  sepFree_append_right (w.take n) _ (by rw [List.take_append_drop]; exact h)

/-- `sepLen` in front of a separator-free chunk followed by a tail that cannot complete a two-byte
    separator. -/
theorem splitWordsAux_sepFree (t : Bytes) (ht : ∀ c t', t = c :: t' → ∀ b, sep2 b c = false) :
    ∀ (w acc : Bytes), sepFree w = true →
      splitWordsAux (w ++ t) 0 acc = splitWordsAux t 0 (w.reverse ++ acc)
  | [], acc, _ => by simp
  | [b], acc, h => by
    have h1 : sep1 b = false := sepFree_head b [] h
    have hk : sepLen (b :: t) = 0 := by
      cases t with
      | nil => rw [sepLen_single, h1]; rfl
      | cons c t' => rw [sepLen_cons2, h1, ht c t' rfl b]; rfl
    simp only [List.cons_append, List.nil_append, splitWordsAux, hk, if_true, List.reverse_cons,
      List.reverse_nil]
  | b :: c :: r, acc, h => by
    have ih := splitWordsAux_sepFree t ht (c :: r) (b :: acc) (sepFree_tail b _ h)
    rw [sepFree_cons_cons] at h
    simp only [Bool.and_eq_true, Bool.not_eq_true'] at h
    have hk : sepLen (b :: c :: (r ++ t)) = 0 := by rw [sepLen_cons2, h.1.1, h.1.2]; rfl
    simp only [List.cons_append] at ih ⊢
    rw [splitWordsAux]
    simp only [hk, if_true]
    rw [ih]
    simp

theorem splitWords_sepFree (w : Bytes) (hne : w ≠ []) (h : sepFree w = true) : splitWords w = [w] := by
  have := splitWordsAux_sepFree [] (fun c t' h => by cases h) w [] h
  simp only [List.append_nil] at this
  unfold splitWords
  rw [this]
  cases w with
  | nil => exact absurd rfl hne
  | cons b r => simp [splitWordsAux]

/-- Re-splitting distributes over a SPACE. -/
theorem splitWordsAux_append_SP (x : Bytes) : ∀ (cur : Bytes) (skip : Nat) (acc : Bytes), skip ≤ cur.length →
    splitWordsAux (cur ++ SP :: x) skip acc = splitWordsAux cur skip acc ++ splitWords x
  | [], skip, acc, h => by
    have : skip = 0 := by simpa using h
    subst this
    have hk : sepLen (SP :: x) = 1 := by
      cases x with
      | nil => rw [sepLen_single]; rfl
      | cons c r => rw [sepLen_cons2]; rfl
    simp only [List.nil_append, splitWordsAux, hk, splitWords]
    simp
  | b :: cur, skip + 1, acc, h => by
    simp only [List.cons_append, splitWordsAux]
    exact splitWordsAux_append_SP x cur skip acc (by simpa using h)
  | b :: cur, 0, acc, _ => by
    have hk : sepLen (b :: (cur ++ SP :: x)) = sepLen (b :: cur) := by
      cases cur with
      | nil => simp only [List.nil_append]; rw [sepLen_cons2, sepLen_single, sep2_SP]; simp
      | cons c r => simp only [List.cons_append]; rw [sepLen_cons2, sepLen_cons2]
    have hle := sepLen_le_length (b :: cur)
    simp only [List.cons_append, splitWordsAux, hk]
    split
    · exact splitWordsAux_append_SP x cur 0 (b :: acc) (Nat.zero_le _)
    · rw [splitWordsAux_append_SP x cur _ [] (by simp only [List.length_cons] at hle; omega)]
      simp

theorem splitWords_append_SP (cur x : Bytes) :
    splitWords (cur ++ SP :: x) = splitWords cur ++ splitWords x :=
  splitWordsAux_append_SP x cur 0 [] (Nat.zero_le _)

theorem splitWords_nil : splitWords [] = [] := rfl

/-- What appending one chunk to a line does to the words of the line. -/
theorem splitWords_line_append (cur chunk : Bytes) (hne : chunk ≠ []) (h : sepFree chunk = true) :
    splitWords (cur ++ (if cur.isEmpty then [] else [SP]) ++ chunk) = splitWords cur ++ [chunk] := by
  cases cur with
  | nil => simp [splitWords_nil, splitWords_sepFree chunk hne h]
  | cons b r =>
    simp only [List.isEmpty_cons, Bool.false_eq_true, if_false, List.append_assoc, List.singleton_append]
    rw [splitWords_append_SP, splitWords_sepFree chunk hne h]

/-! ### First word, separator, rest -/

/-- The longest separator-free prefix, and what follows it. -/
def spanW : Bytes → Bytes × Bytes
  | [] => ([], [])
  | b :: r => if sepLen (b :: r) = 0 then (b :: (spanW r).1, (spanW r).2) else ([], b :: r)

theorem spanW_cons_zero (b : Byte) (r : Bytes) (h : sepLen (b :: r) = 0) :
    spanW (b :: r) = (b :: (spanW r).1, (spanW r).2) := by simp [spanW, h]

theorem spanW_cons_pos (b : Byte) (r : Bytes) (h : sepLen (b :: r) ≠ 0) :
    spanW (b :: r) = ([], b :: r) := by simp [spanW, h]

theorem spanW_append : ∀ s : Bytes, (spanW s).1 ++ (spanW s).2 = s
  | [] => rfl
  | b :: r => by
    by_cases h : sepLen (b :: r) = 0
    · rw [spanW_cons_zero b r h]; simp [spanW_append r]
    · rw [spanW_cons_pos b r h]; rfl

theorem spanW_sepFree : ∀ s : Bytes, sepFree (spanW s).1 = true
  | [] => rfl
  | b :: r => by
    by_cases h : sepLen (b :: r) = 0
    · rw [spanW_cons_zero b r h]
      have ih := spanW_sepFree r
      have happ := spanW_append r
      show sepFree (b :: (spanW r).1) = true
      cases hw : (spanW r).1 with
      | nil =>
        cases r with
        | nil => rw [sepLen_single] at h; simp only [sepFree]; split at h <;> simp_all
        | cons c r' => rw [sepLen_cons2] at h; simp only [sepFree]; split at h <;> simp_all
      | cons c w' =>
        rw [hw] at ih happ
        cases r with
        | nil => simp at happ
        | cons c' r' =>
          have : c' = c := by simp only [List.cons_append, List.cons.injEq] at happ; exact happ.1.symm
          subst this
          rw [sepLen_cons2] at h
          rw [sepFree_cons_cons, ih]
          split at h
          · cases h
          · split at h
            · cases h
            · simp_all
    · rw [spanW_cons_pos b r h]; rfl

theorem spanW_rest (s : Bytes) : (spanW s).2 = [] ∨ ∃ b r, (spanW s).2 = b :: r ∧ sepLen (b :: r) ≠ 0 := by
  induction s with
  | nil => exact Or.inl rfl
  | cons b r ih =>
    by_cases h : sepLen (b :: r) = 0
    · rw [spanW_cons_zero b r h]; exact ih
    · rw [spanW_cons_pos b r h]; exact Or.inr ⟨b, r, rfl, h⟩

theorem splitWordsAux_span : ∀ (s acc : Bytes), splitWordsAux s 0 acc =
    (if (acc.reverse ++ (spanW s).1).isEmpty then [] else [acc.reverse ++ (spanW s).1]) ++
      (match (spanW s).2 with
       | [] => []
       | b :: r => splitWordsAux r (sepLen (b :: r) - 1) [])
  | [], acc => by
    simp only [splitWordsAux, spanW, List.append_nil, List.isEmpty_reverse]
  | b :: r, acc => by
    by_cases h : sepLen (b :: r) = 0
    · rw [spanW_cons_zero b r h]
      simp only [splitWordsAux, h, if_true]
      rw [splitWordsAux_span r (b :: acc)]
      simp
    · rw [spanW_cons_pos b r h]
      simp only [splitWordsAux, h, if_false, List.append_nil, List.isEmpty_reverse]

/-- A separator rune of the splitter. -/
def IsSepRune (sep : Bytes) : Prop :=
  (∃ b, sep = [b] ∧ sep1 b = true) ∨ (∃ c, sep = [0xC2, c] ∧ (c = 0x85 ∨ c = 0xA0))

theorem sep1_lt : ∀ b : UInt8, sep1 b = true → b < 0x80 := by decide +kernel

/-- Induction principle: `splitWords` peels a (possibly empty) separator-free word, then a separator
    rune, and goes on. -/
theorem splitWords_ind (Q : Bytes → List Bytes → Prop)
    (hend : ∀ w, sepFree w = true → Q w (if w.isEmpty then [] else [w]))
    (hstep : ∀ w sep r ws, sepFree w = true → IsSepRune sep → Q r ws →
      Q (w ++ sep ++ r) ((if w.isEmpty then [] else [w]) ++ ws)) :
    ∀ s, Q s (splitWords s) := by
  intro s
  induction s using bytes_strong_induction with
  | _ s ih =>
    have hspan := splitWordsAux_span s []
    have happ := spanW_append s
    have hfree := spanW_sepFree s
    simp only [List.reverse_nil, List.nil_append] at hspan
    unfold splitWords
    rw [hspan]
    rcases spanW_rest s with hr | ⟨b, r, hr, hk⟩
    · rw [hr] at happ ⊢
      simp only [List.append_nil] at happ ⊢
      rw [happ] at hfree ⊢
      exact hend s hfree
    · rw [hr] at happ ⊢
      simp only
      cases r with
      | nil =>
        rw [sepLen_single] at hk
        have h1 : sep1 b = true := by
          cases h : sep1 b <;> simp_all
        have hq := hstep (spanW s).1 [b] [] [] hfree (Or.inl ⟨b, rfl, h1⟩) (hend [] rfl)
        simp only [List.append_nil] at hq
        rw [happ] at hq
        simpa [splitWordsAux] using hq
      | cons c r' =>
        rw [sepLen_cons2] at hk ⊢
        by_cases h1 : sep1 b = true
        · simp only [h1, if_true, Nat.sub_self]
          have hlen : (c :: r').length < s.length := by
            rw [← happ]; simp; omega
          have hq := hstep (spanW s).1 [b] (c :: r') _ hfree (Or.inl ⟨b, rfl, h1⟩) (ih (c :: r') hlen)
          simp only [List.append_assoc, List.singleton_append] at hq
          rw [happ] at hq
          exact hq
        · simp only [h1, if_false, Bool.false_eq_true] at hk ⊢
          have h2 : sep2 b c = true := by
            cases h : sep2 b c <;> simp_all
          simp only [h2, if_true]
          have hb : b = 0xC2 ∧ (c = 0x85 ∨ c = 0xA0) := by
            simpa [sep2] using h2
          have hlen : r'.length < s.length := by
            rw [← happ]; simp; omega
          have hq := hstep (spanW s).1 [0xC2, c] r' _ hfree (Or.inr ⟨c, rfl, hb.2⟩) (ih r' hlen)
          simp only [List.append_assoc, List.cons_append, List.nil_append] at hq
          rw [hb.1] at happ
          rw [happ] at hq
          simpa [splitWordsAux, splitWords] using hq

theorem IsSepRune.valid {sep : Bytes} (h : IsSepRune sep) : Valid sep := by
  rcases h with ⟨b, rfl, hb⟩ | ⟨c, rfl, hc⟩
  · exact valid_single b (sep1_lt b hb)
  · refine Valid.step _ 2 ?_ Valid.nil
    rcases hc with rfl | rfl <;> decide

theorem IsSepRune.lead {sep : Bytes} (h : IsSepRune sep) : ∃ c r, sep = c :: r ∧ isLead c := by
  rcases h with ⟨b, rfl, hb⟩ | ⟨c, rfl, _⟩
  · exact ⟨b, [], rfl, Or.inl (sep1_lt b hb)⟩
  · exact ⟨0xC2, [c], rfl, Or.inr (by decide)⟩

theorem IsSepRune.length_pos {sep : Bytes} (h : IsSepRune sep) : 1 ≤ sep.length := by
  rcases h with ⟨b, rfl, _⟩ | ⟨c, rfl, _⟩ <;> simp

/-- The words of a valid text: non-empty, separator-free, valid. -/
theorem splitWords_good (s : Bytes) (hv : Valid s) :
    ∀ wd ∈ splitWords s, wd ≠ [] ∧ sepFree wd = true ∧ Valid wd := by
  refine splitWords_ind (fun s ws => Valid s → ∀ wd ∈ ws, wd ≠ [] ∧ sepFree wd = true ∧ Valid wd)
    ?_ ?_ s hv
  · intro w hf hv wd hwd
    split at hwd
    · cases hwd
    · rename_i hne
      simp only [List.mem_singleton] at hwd
      subst hwd
      exact ⟨fun h => hne (by simp [h]), hf, hv⟩
  · intro w sep r ws hf hsep ih hv wd hwd
    obtain ⟨c, r', hc, hlead⟩ := hsep.lead
    rw [List.append_assoc] at hv
    have h1 := hv.split_lead (Or.inr ⟨c, r' ++ r, by rw [hc]; rfl, hlead⟩)
    have hr : Valid r := hsep.valid.drop_prefix r h1.2
    rcases List.mem_append.mp hwd with hwd | hwd
    · split at hwd
      · cases hwd
      · rename_i hne
        simp only [List.mem_singleton] at hwd
        subst hwd
        exact ⟨fun h => hne (by simp [h]), hf, h1.1⟩
    · exact ih hr wd hwd

/-- Total size of the words, counting one per word, is at most the size of the text plus one. -/
theorem splitWords_sum (s : Bytes) : ((splitWords s).map (fun wd => wd.length + 1)).sum ≤ s.length + 1 := by
  refine splitWords_ind (fun s ws => (ws.map (fun wd => wd.length + 1)).sum ≤ s.length + 1) ?_ ?_ s
  · intro w _
    split <;> simp
  · intro w sep r ws _ hsep ih
    have := hsep.length_pos
    simp only [List.map_append, List.sum_append, List.length_append]
    split <;> simp <;> omega

end Girc.Proofs.SplitSep
