import Girc.Proofs.TransParseTags
import Girc.Proofs.TransSource
import Girc.Proofs.ParseTotal
/-
  Translator equivalence, event.go: ParseEvent.
-/
set_option linter.unusedSimpArgs false
namespace Girc.Proofs.Trans
open Girc Girc.Model Girc.Go Girc.Gen

abbrev PELoopR := LoopR ((Option Event) × Int × Int × Int) (Option Event)

/-- The generated trailer loop against the hand-written `trailerLoopGo`, for any continuation that does not look at the
    two scratch counters (`lastIndex`, `trailerIndex`) the loop leaves behind. -/
theorem ParseEvent_loop1_bind (raw : Bytes) (j : Int) (k : PELoopR → Except Fault (Option Event))
    (hk : ∀ e i L T L' T', k (.done (e, i, L, T)) = k (.done (e, i, L', T'))) :
    ∀ (fuel : Nat) (ev : Event) (i L T : Int),
    (Fn.ParseEvent_loop1 raw j fuel (some ev) i L T >>= k) =
      (trailerLoopGo raw j fuel T >>= fun r =>
        match r with
        | none => sliceI raw j (len raw) >>= fun s => k (.ret (some { ev with params := fieldsSp s }))
        | some off => k (.done (some ev, off, 0, 0)))
  | 0, _, _, _, _ => rfl
  | fuel + 1, ev, i, L, T => by
    unfold Fn.ParseEvent_loop1 trailerLoopGo
    have hm : Fn.messagePrefix = COLON := rfl
    have hs : Fn.eventSpace = SP := rfl
    simp only [hm, hs, len_eq, bind, Except.bind, pure, Except.pure, deref_some]
    cases h1 : sliceI raw (j + T) ↑raw.length with
    | error f => rfl
    | ok s =>
      simp only []
      by_cases h2 : indexByteI s COLON = -1
      · simp only [h2, beq_self_eq_true, if_true]
        cases sliceI raw j ↑raw.length <;> rfl
      · have h2' : (indexByteI s COLON == -1) = false := by simp [h2]
        simp only [h2, h2', Bool.false_eq_true, if_false]
        cases h3 : atI raw (j + T + indexByteI s COLON - 1) with
        | error f => rfl
        | ok c =>
          simp only []
          by_cases h4 : c = SP
          · subst h4
            simp only [beq_self_eq_true, if_true]
            exact hk _ _ _ _ _ _
          · have h4' : (c == SP) = false := by simp [h4]
            simp only [h4, h4', Bool.false_eq_true, if_false]
            have ih := ParseEvent_loop1_bind raw j k hk fuel ev i T (indexByteI s COLON + (T + 1))
            simp only [bind, Except.bind] at ih
            rw [ih]
            have : indexByteI s COLON + (T + 1) = indexByteI s COLON + T + 1 := by omega
            rw [this]
            rfl

theorem ok_bind {α β : Type} (a : α) (f : α → Except Fault β) : (Except.ok a >>= f) = f a := rfl
theorem err_bind {α β : Type} (e : Fault) (f : α → Except Fault β) : (Except.error e >>= f) = .error e := rfl

theorem ParseEvent_unfold (raw0 : Bytes) : Fn.ParseEvent raw0 = ParseTotal.goTop raw0 := by
  unfold Fn.ParseEvent ParseTotal.goTop
  extract_lets r0 e0 raw zero ev0 jp1 ix rawR iR
  have hjp1 : ∀ (raw : Bytes) (t : Option Tags),
      jp1 () raw (some { tags := t, source := none, command := [], params := [] }) 0 = ParseTotal.goSrc t raw := by
    intro raw t
    simp -zeta only [jp1]
    extract_lets jp2 ix iy
    have hjp2 : ∀ (t : Option Tags) (s : Option Source) (i : Int),
        jp2 () (some { tags := t, source := s, command := [], params := [] }) i = ParseTotal.goTail t s raw i := by
      intro t s i
      simp -zeta only [jp2, ParseTotal.goTail, len_eq, deref_some, ok_bind]
      cases h1 : sliceI raw i ↑raw.length with
      | error f => rfl
      | ok rest =>
        have hs : Fn.eventSpace = SP := rfl
        simp only [ok_bind, hs]
        by_cases h2 : i + indexByteI rest SP < i
        · simp only [h2, decide_true, if_true]
        · simp only [h2, decide_false, Bool.false_eq_true, if_false]
          cases h3 : sliceI raw i (i + indexByteI rest SP) with
          | error f => rfl
          | ok cmd =>
            simp only [ok_bind]
            rw [ParseEvent_loop1_bind raw _ _ (by intros; rfl)]
            have hfuel : (↑(List.length raw) : Int).toNat + 1 = raw.length + 1 := by omega
            rw [hfuel]
            cases h4 : trailerLoopGo raw (i + indexByteI rest SP + 1) (raw.length + 1) zero with
            | error f => rfl
            | ok r =>
              cases r with
              | none =>
                simp only [ok_bind, len_eq]
              | some off =>
                simp only [ok_bind, deref_some]
                by_cases h5 : i + indexByteI rest SP + 1 + off > i + indexByteI rest SP + 1
                · simp only [h5, decide_true, if_true]
                · simp only [h5, decide_false, Bool.false_eq_true, if_false]
    -- the `:source ` section
    have hm : Fn.messagePrefix = COLON := rfl
    have hs : Fn.eventSpace = SP := rfl
    simp only [ParseTotal.goSrc, hm, hs, ix, iy]
    cases raw with
    | nil =>
      have c1 : (([] : Bytes) != []) = false := by decide
      simp only [c1, andE_false, pure, Except.pure, ok_bind, Bool.false_eq_true, if_false, ne_eq, not_true_eq_false]
      exact hjp2 _ _ _
    | cons x xs =>
      have c1 : ((x :: xs) != []) = true := by simp
      simp only [c1, andE_true, atI_cons_zero, pure, Except.pure, ok_bind, ne_eq, reduceCtorEq, not_false_eq_true, if_true]
      by_cases hx : x = COLON
      · subst hx
        simp only [beq_self_eq_true, if_true]
        by_cases h2 : indexByteI (COLON :: xs) SP < 2
        · simp only [h2, decide_true, if_true]
        · simp only [h2, decide_false, Bool.false_eq_true, if_false, deref_some, ok_bind]
          cases h3 : sliceI (COLON :: xs) 1 (indexByteI (COLON :: xs) SP) with
          | error f => rfl
          | ok sr =>
            simp only [ok_bind, ParseSource_eq]
            exact hjp2 _ _ _
      · have hx' : (x == COLON) = false := by simp [hx]
        simp only [hx, hx', Bool.false_eq_true, if_false]
        exact hjp2 _ _ _
  -- the `@tags ` section
  have hp : Fn.prefixTag = AT := rfl
  have hs : Fn.eventSpace = SP := rfl
  have hR : rawR = raw := rfl
  clear_value jp1 rawR
  subst hR
  clear_value raw
  simp only [hp, hs, len_eq, ix, zero, ev0, iR]
  by_cases hlen : raw.length < 2
  · have : (↑raw.length : Int) < 2 := by omega
    simp only [hlen, this, decide_true, if_true]
  · have : ¬ (↑raw.length : Int) < 2 := by omega
    simp only [hlen, this, decide_false, Bool.false_eq_true, if_false]
    cases h0 : atI raw 0 with
    | error f => rfl
    | ok c =>
      simp only [ok_bind]
      by_cases hc : c = AT
      · subst hc
        simp only [beq_self_eq_true, if_true]
        by_cases h2 : indexByteI raw SP < 2
        · simp only [h2, decide_true, if_true]
        · simp only [h2, decide_false, Bool.false_eq_true, if_false, deref_some, ok_bind]
          cases h3 : sliceI raw 1 (indexByteI raw SP) with
          | error f => rfl
          | ok tr =>
            simp only [ok_bind, ParseTags_eq]
            cases h4 : sliceI raw (indexByteI raw SP + 1) ↑raw.length with
            | error f => rfl
            | ok raw' =>
              simp only [ok_bind]
              exact hjp1 _ _
      · have hc' : (c == AT) = false := by simp [hc]
        simp only [hc, hc', Bool.false_eq_true, if_false]
        exact hjp1 _ _

theorem ParseEvent_eq (raw : Bytes) : Fn.ParseEvent raw = .ok (parseEvent raw) := by
  rw [ParseEvent_unfold, ParseTotal.goTop_eq]

end Girc.Proofs.Trans
