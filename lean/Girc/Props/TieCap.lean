import Girc.Proofs.TransCap
/-
  Tie (TieCap, C08): cap.go `parseCap` regenerated from the Go source equals the model `parseCap` of Model/Cap.lean (what the
  capability-negotiation theorems of C08 parse the server's CAP LS / NEW lists with) for ALL inputs.  The Go function builds a
  `map[string]map[string]string` with nested assignments `out[a][b] = v`; the generated code treats the inner maps as values
  and writes them back (TRANSLATOR_NOTES §2.13).  `possibleCapList` is NOT translated (see the notes).
-/
namespace Girc.Props.TieCap
open Girc Girc.Model Girc.Gen

theorem tie_parseCap : ∀ raw : Bytes, Fn.parseCap raw = .ok (some (parseCap raw)) := Proofs.Trans.parseCap_eq
-- "a sts=p=6,x b=": a ↦ nil, sts ↦ {p: 6, x: ""}, b ↦ {"": ""}
example : Fn.parseCap [0x61, 0x20, 0x73, 0x74, 0x73, 0x3D, 0x70, 0x3D, 0x36, 0x2C, 0x78, 0x20, 0x62, 0x3D] =
    .ok (some [([0x61], none), ([0x73, 0x74, 0x73], some [([0x70], [0x36]), ([0x78], [])]), ([0x62], some [([], [])])]) := by rfl
-- "=x" (no name before '='): the whole token is the key, value nil
example : Fn.parseCap [0x3D, 0x78] = .ok (some [([0x3D, 0x78], none)]) := by rfl

end Girc.Props.TieCap
