import Girc.Proofs.TransTags
import Girc.Proofs.TransSource
/-
  Translator equivalence, cap_tags.go: ParseTags, Tags.Get.
-/
set_option linter.unusedSimpArgs false
namespace Girc.Proofs.Trans
open Girc Girc.Model Girc.Go Girc.Gen

/-! ### ParseTags -/

theorem parseTagItem_none (m : Tags) (p : Bytes) (h : indexOf 0x3D p = none) :
    parseTagItem m p = if validTag p then AMap.set m p [] else m := by
  unfold parseTagItem; rw [h]
theorem parseTagItem_zero (m : Tags) (p : Bytes) (h : indexOf 0x3D p = some 0) :
    parseTagItem m p = if validTag p then AMap.set m p [] else m := by
  unfold parseTagItem; rw [h]
theorem parseTagItem_succ (m : Tags) (p : Bytes) (k : Nat) (h : indexOf 0x3D p = some (k + 1)) :
    parseTagItem m p = AMap.set m (p.take (k + 1)) (p.drop (k + 2)) := by
  unfold parseTagItem; rw [h]

theorem ParseTags_loop1_eq (parts : List Bytes) : ∀ (fuel n : Nat) (m : Tags) (hv : Int),
    n ≤ parts.length → parts.length - n < fuel →
    ∃ hv', Fn.ParseTags_loop1 parts fuel (some m) hv (n : Int) =
      .ok (.done (some ((parts.drop n).foldl parseTagItem m), hv'))
  | 0, _, _, _, _, h => by omega
  | fuel + 1, n, m, hv, hn, hf => by
    unfold Fn.ParseTags_loop1
    by_cases hlt : n < parts.length
    · have hx : parts[n]? = some parts[n] := by simp [hlt]
      have hp := atL_nat parts n parts[n] hx
      have hd : parts.drop n = parts[n] :: parts.drop (n + 1) := List.drop_eq_getElem_cons hlt
      generalize parts[n] = p at hx hp hd
      have e1 : ((n : Int) + 1) = ((n + 1 : Nat) : Int) := by omega
      have hc : decide ((n : Int) < len parts) = true := by dec_tac
      have hpv : Fn.prefixTagValue = 0x3D := rfl
      simp only [hc, hp, hpv, bind, Except.bind, pure, Except.pure, e1, Bool.not_true, Bool.false_eq_true, if_false,
        validTag_eq, mapSet_some]
      rw [hd, List.foldl_cons]
      unfold indexByteI
      cases hi : indexOf 0x3D p with
      | none =>
        have c1 : decide ((-1 : Int) < 1) = true := by decide
        rw [parseTagItem_none m p hi]
        simp only [c1, orE_true, if_true]
        cases hvt : validTag p
        · obtain ⟨hv', ih⟩ := ParseTags_loop1_eq parts fuel (n + 1) m (-1) (by omega) (by omega)
          exact ⟨hv', by simpa using ih⟩
        · obtain ⟨hv', ih⟩ := ParseTags_loop1_eq parts fuel (n + 1) (AMap.set m p []) (-1) (by omega) (by omega)
          exact ⟨hv', by simpa using ih⟩
      | some k =>
        have hk := ParseTotal.indexOf_lt hi
        cases k with
        | zero =>
          have c1 : decide (((0 : Nat) : Int) < 1) = true := by decide
          rw [parseTagItem_zero m p hi]
          simp only [c1, orE_true, if_true]
          cases hvt : validTag p
          · obtain ⟨hv', ih⟩ := ParseTags_loop1_eq parts fuel (n + 1) m ((0 : Nat) : Int) (by omega) (by omega)
            exact ⟨hv', by simpa using ih⟩
          · obtain ⟨hv', ih⟩ := ParseTags_loop1_eq parts fuel (n + 1) (AMap.set m p []) ((0 : Nat) : Int) (by omega) (by omega)
            exact ⟨hv', by simpa using ih⟩
        | succ k =>
          have c1 : decide (((k + 1 : Nat) : Int) < 1) = false := by dec_tac
          have c2 : decide (len p < ((k + 1 : Nat) : Int) + 1) = false := by dec_tac
          have s1 := sliceI_int p 0 ((k + 1 : Nat) : Int) 0 (k + 1) rfl rfl (by omega) (by omega)
          have s2 := sliceI_int_end p (((k + 1 : Nat) : Int) + 1) (k + 2) (by omega) (by omega)
          rw [parseTagItem_succ m p k hi]
          simp only [c1, c2, orE_false, Bool.false_eq_true, if_false, s1, s2, mapSet_some]
          obtain ⟨hv', ih⟩ := ParseTags_loop1_eq parts fuel (n + 1) (AMap.set m (p.take (k + 1)) (p.drop (k + 2)))
            ((k + 1 : Nat) : Int) (by omega) (by omega)
          exact ⟨hv', by simpa using ih⟩
    · have hc : decide ((n : Int) < len parts) = false := by dec_tac
      have : parts.drop n = [] := by simp; omega
      exact ⟨hv, by simp [hc, this, pure, Except.pure]⟩

theorem ParseTags_loop1_top (r : Bytes) :
    ∃ hv', Fn.ParseTags_loop1 (splitOnByte 0x3B r) (fuelTo 0 (len (splitOnByte 0x3B r))) (some []) 0 0 =
      .ok (.done (some ((splitOnByte 0x3B r).foldl parseTagItem []), hv')) := by
  obtain ⟨hv', hl⟩ := ParseTags_loop1_eq (splitOnByte 0x3B r) (fuelTo 0 (len (splitOnByte 0x3B r))) 0 [] 0 (by omega) (by fuel_tac)
  exact ⟨hv', by simpa using hl⟩

theorem ParseTags_eq (raw : Bytes) : Fn.ParseTags raw = .ok (some (parseTags raw)) := by
  unfold Fn.ParseTags parseTags
  have hsep : strOfByte Fn.tagSeparator = [0x3B] := by decide
  have hpt : Fn.prefixTag = 0x40 := rfl
  cases raw with
  | nil =>
    have c1 : decide (len ([] : Bytes) > 0) = false := by decide
    obtain ⟨hv', hl⟩ := ParseTags_loop1_top []
    simp only [c1, andE_false, bind, Except.bind, pure, Except.pure, Bool.false_eq_true, if_false, List.head?_nil,
      hsep, split_one, hl]
    simp
  | cons c r =>
    have c1 : decide (len (c :: r) > 0) = true := by dec_tac
    by_cases hc : c = 0x40
    · subst hc
      have s1 := sliceI_int_end (0x40 :: r) 1 1 rfl (by simp)
      obtain ⟨hv', hl⟩ := ParseTags_loop1_top r
      simp only [c1, andE_true, atI_cons_zero, hpt, bind, Except.bind, pure, Except.pure, beq_self_eq_true, if_true, s1,
        hsep, split_one, hl]
      simp [hl]
    · have hne : (c == (0x40 : UInt8)) = false := by simp [hc]
      obtain ⟨hv', hl⟩ := ParseTags_loop1_top (c :: r)
      simp only [c1, andE_true, atI_cons_zero, hpt, bind, Except.bind, pure, Except.pure, hne, Bool.false_eq_true, if_false,
        hsep, split_one, hl]
      simp [hc]

end Girc.Proofs.Trans

namespace Girc.Proofs.Trans
open Girc Girc.Model Girc.Go Girc.Gen

/-! ### Tags.Get -/

/-- The pair the generated replacer table selects at a position that starts with the bytes `b c`. -/
theorem tagDecoder_find (b c : Byte) (rest : Bytes) :
    Fn.tagDecoder.find? (fun p => p.1.isPrefixOf (b :: c :: rest)) =
      if b = 0x5C then (tagUnesc c).map (fun d => ([0x5C, c], [d])) else none := by
  by_cases hb : b = 0x5C
  · subst hb
    by_cases h1 : c = 0x3A
    · subst h1; simp [Fn.tagDecoder, List.find?, List.isPrefixOf, tagUnesc]
    by_cases h2 : c = 0x73
    · subst h2; simp [Fn.tagDecoder, List.find?, List.isPrefixOf, tagUnesc]
    by_cases h3 : c = 0x5C
    · subst h3; simp [Fn.tagDecoder, List.find?, List.isPrefixOf, tagUnesc]
    by_cases h4 : c = 0x72
    · subst h4; simp [Fn.tagDecoder, List.find?, List.isPrefixOf, tagUnesc]
    by_cases h5 : c = 0x6E
    · subst h5; simp [Fn.tagDecoder, List.find?, List.isPrefixOf, tagUnesc]
    have e1 : ¬ (0x3A = c) := fun e => h1 e.symm
    have e2 : ¬ (0x73 = c) := fun e => h2 e.symm
    have e3 : ¬ (0x5C = c) := fun e => h3 e.symm
    have e4 : ¬ (0x72 = c) := fun e => h4 e.symm
    have e5 : ¬ (0x6E = c) := fun e => h5 e.symm
    have b1 : ((0x3A : UInt8) == c) = false := by simp [e1]
    have b2 : ((0x73 : UInt8) == c) = false := by simp [e2]
    have b3 : ((0x5C : UInt8) == c) = false := by simp [e3]
    have b4 : ((0x72 : UInt8) == c) = false := by simp [e4]
    have b5 : ((0x6E : UInt8) == c) = false := by simp [e5]
    simp [Fn.tagDecoder, List.find?, List.isPrefixOf, tagUnesc, h1, h2, h3, h4, h5, b1, b2, b3, b4, b5]
  · have e : ¬ (0x5C = b) := fun e => hb e.symm
    have b0 : ((0x5C : UInt8) == b) = false := by simp [e]
    simp [Fn.tagDecoder, List.find?, List.isPrefixOf, hb, b0]

theorem tagDecoder_find_single (b : Byte) : Fn.tagDecoder.find? (fun p => p.1.isPrefixOf [b]) = none := by
  simp [Fn.tagDecoder, List.find?, List.isPrefixOf]

theorem replacer_tagDecoder_fuel : ∀ (n : Nat) (v : Bytes), v.length < n → replacerFuel Fn.tagDecoder n v = tagDecode v
  | 0, _, h => by omega
  | n + 1, [], _ => by simp [replacerFuel, tagDecode]
  | n + 1, [b], _ => by
    unfold replacerFuel
    rw [tagDecoder_find_single]
    cases n <;> simp [replacerFuel, tagDecode]
  | n + 1, b :: c :: rest, h => by
    unfold replacerFuel
    rw [tagDecoder_find]
    unfold tagDecode
    by_cases hb : b = 0x5C
    · subst hb
      cases hu : tagUnesc c with
      | none =>
        simp only [if_true, Option.map_none]
        rw [replacer_tagDecoder_fuel n (c :: rest) (by simp at h ⊢; omega)]
      | some d =>
        simp only [if_true, Option.map_some, List.length_cons, List.length_nil, List.drop_succ_cons, List.drop_zero,
          List.singleton_append]
        rw [replacer_tagDecoder_fuel n rest (by simp at h; omega)]
    · simp only [hb, if_false]
      rw [replacer_tagDecoder_fuel n (c :: rest) (by simp at h ⊢; omega)]

theorem replacer_tagDecoder (v : Bytes) : replacer Fn.tagDecoder v = tagDecode v :=
  replacer_tagDecoder_fuel (v.length + 1) v (by omega)

theorem Tags_Get_eq (t : Option Tags) (key : Bytes) :
    Fn.Tags_Get t key = .ok (match tagsGet t key with
                             | some v => (v, true)
                             | none => ([], false)) := by
  unfold Fn.Tags_Get tagsGet
  cases t with
  | none => rfl
  | some m =>
    simp only [Option.isNone_some, Bool.false_eq_true, if_false, mapHas, mapGet, AMap.contains, replacer_tagDecoder,
      bind, Except.bind, pure, Except.pure]
    cases AMap.get? m key <;> simp

end Girc.Proofs.Trans
