import Girc.Proofs.FormatFmt
/-
  C20 proofs, part 2: `StripRaw`.
-/
namespace Girc.Proofs.Format
open Girc Girc.Model Girc.Spec

/-! ### fuel independence and unfolding of `stripColor` -/

theorem stripColorFuel_indep : ∀ (n m : Nat) (s : Bytes), s.length < n → s.length < m →
    stripColorFuel n s = stripColorFuel m s := by
  intro n
  induction n with
  | zero => intro m s h; omega
  | succ n ih =>
    intro m s hn hm
    cases m with
    | zero => omega
    | succ m =>
      cases s with
      | nil => simp [stripColorFuel]
      | cons b rest =>
        simp only [List.length_cons] at hn hm
        simp only [stripColorFuel]
        have hrest := ih m rest (by omega) (by omega)
        split
        · split
          · rename_i k _
            have : (rest.drop k).length ≤ rest.length := by simp
            exact ih m _ (by omega) (by omega)
          · rw [hrest]
        · rw [hrest]

theorem stripColor_nil : stripColor [] = [] := rfl

theorem stripColor_cons (b : Byte) (rest : Bytes) :
    stripColor (b :: rest) =
      if b = 0x03 then
        match colorArgs rest with
        | some k => stripColor (rest.drop k)
        | none => b :: stripColor rest
      else b :: stripColor rest := by
  simp only [stripColor, List.length_cons, stripColorFuel]
  by_cases hb : b = 0x03
  · cases hc : colorArgs rest with
    | none => simp [hb]
    | some k =>
      simp only [hb, if_true]
      have : (rest.drop k).length ≤ rest.length := by simp
      exact stripColorFuel_indep _ _ _ (by omega) (by omega)
  · simp [hb]

theorem stripColor_cons_ne (b : Byte) (rest : Bytes) (h : b ≠ 0x03) :
    stripColor (b :: rest) = b :: stripColor rest := by
  rw [stripColor_cons, if_neg h]

theorem stripColor_append (s rest : Bytes) (h : ∀ b ∈ s, b ≠ 0x03) :
    stripColor (s ++ rest) = s ++ stripColor rest := by
  induction s with
  | nil => rfl
  | cons b s ih =>
    simp only [List.mem_cons, forall_eq_or_imp] at h
    rw [List.cons_append, stripColor_cons_ne _ _ h.1, ih h.2, List.cons_append]

theorem stripColor_noColor (s : Bytes) (h : ∀ b ∈ s, b ≠ 0x03) : stripColor s = s := by
  have := stripColor_append s [] h
  simpa [stripColor_nil] using this

/-! ### `strip_clean`, `strip_id`, `strip_idem` -/

theorem strip_clean_aux (t : Bytes) : ∀ b ∈ stripRaw t, b ∉ codeBytes := by
  intro b hb
  simp only [stripRaw, List.mem_filter] at hb
  simpa using hb.2

theorem noCode_of_hasCodeByte (t : Bytes) (h : hasCodeByte t = false) : ∀ b ∈ t, b ∉ codeBytes := by
  intro b hb hc
  have : hasCodeByte t = true := by
    simp only [hasCodeByte, List.any_eq_true]
    exact ⟨b, hb, by simpa using hc⟩
  rw [h] at this; cases this

theorem hasCodeByte_of_noCode (t : Bytes) (h : ∀ b ∈ t, b ∉ codeBytes) : hasCodeByte t = false := by
  cases hc : hasCodeByte t with
  | false => rfl
  | true =>
    simp only [hasCodeByte, List.any_eq_true] at hc
    obtain ⟨b, hb, hbc⟩ := hc
    exact absurd (by simpa using hbc) (h b hb)

theorem three_mem_codeBytes : (0x03 : Byte) ∈ codeBytes := by decide

theorem strip_id_aux (t : Bytes) (h : hasCodeByte t = false) : stripRaw t = t := by
  have hn := noCode_of_hasCodeByte t h
  have h3 : ∀ b ∈ t, b ≠ 0x03 := by
    intro b hb he
    exact hn b hb (he ▸ three_mem_codeBytes)
  rw [stripRaw, stripColor_noColor t h3, List.filter_eq_self]
  intro b hb
  simpa using hn b hb

theorem strip_idem_aux (t : Bytes) : stripRaw (stripRaw t) = stripRaw t :=
  strip_id_aux _ (hasCodeByte_of_noCode _ (strip_clean_aux t))

/-! ### table facts -/

theorem lookup_mem {α β} [BEq α] [LawfulBEq α] (a : α) (b : β) :
    ∀ (l : List (α × β)), List.lookup a l = some b → (a, b) ∈ l := by
  intro l
  induction l with
  | nil => intro h; cases h
  | cons p l ih =>
    obtain ⟨x, y⟩ := p
    intro h
    simp only [List.lookup] at h
    split at h
    · rename_i heq
      have : a = x := by simpa using heq
      cases h; subst this; exact List.mem_cons_self
    · exact List.mem_cons_of_mem _ (ih h)

theorem colors_lt16 : Spec.colors.all (fun p => p.2 < 16) = true := by decide

theorem colorOf_lt16 (n : Bytes) (c : Nat) (h : colorOf n = some c) : c < 16 := by
  have hm := lookup_mem n c _ h
  have := List.all_eq_true.mp colors_lt16 _ hm
  simpa using this

def codeOk (v : Bytes) : Bool :=
  match v with
  | [b] => codeBytes.contains b
  | _ => false

theorem codes_ok : Spec.codes.all (fun p => codeOk p.2) = true := by decide

theorem codeOf_ok (n v : Bytes) (h : codeOf n = some v) : ∃ b, v = [b] ∧ b ∈ codeBytes := by
  have hm := lookup_mem n v _ h
  have := List.all_eq_true.mp codes_ok _ hm
  simp only [codeOk] at this
  split at this
  · rename_i b; exact ⟨b, rfl, by simpa using this⟩
  · cases this

theorem twoDigits_lt16 : ∀ c, c < 16 →
    ∃ a b, twoDigits c = [a, b] ∧ is019 a = true ∧ isDigitB b = true := by
  intro c hc
  refine ⟨_, _, rfl, ?_, ?_⟩ <;>
  · revert c; decide

/-! ### the colour matcher on the outputs of `Fmt` -/

/-- the next byte does not continue a colour sequence -/
def okNext (s : Bytes) : Bool :=
  match s.head? with
  | some b => !(isDigitB b || b = COMMA)
  | none => true

theorem is019_digit : ∀ b : Byte, is019 b = true → isDigitB b = true := by decide +kernel

theorem colorNum_okNext (s : Bytes) (h : okNext s = true) : colorNum s = none := by
  match s with
  | [] => rfl
  | [a] =>
    simp [okNext] at h
    simp [colorNum, h.1]
  | a :: b :: r =>
    simp [okNext] at h
    have h1 : is019 a = false := by
      cases h019 : is019 a with
      | false => rfl
      | true => rw [is019_digit a h019] at h; simp at h
    simp [colorNum, h.1, h1]

theorem colorArgs_okNext (s : Bytes) (h : okNext s = true) : colorArgs s = none := by
  simp [colorArgs, colorNum_okNext s h]

theorem colorArgs_two (a b : Byte) (rest : Bytes) (ha : is019 a = true) (hb : isDigitB b = true)
    (h : okNext rest = true) : colorArgs (a :: b :: rest) = some 2 := by
  have hn : colorNum (a :: b :: rest) = some 2 := by simp [colorNum, ha, hb]
  simp only [colorArgs, hn, List.drop_succ_cons, List.drop_zero]
  match rest, h with
  | [], _ => rfl
  | c :: r, h =>
    simp [okNext] at h
    simp [h.2]

theorem colorArgs_five (a b c d : Byte) (rest : Bytes) (ha : is019 a = true) (hb : isDigitB b = true)
    (hc : is019 c = true) (hd : isDigitB d = true) :
    colorArgs (a :: b :: COMMA :: c :: d :: rest) = some 5 := by
  have hn : colorNum (a :: b :: COMMA :: c :: d :: rest) = some 2 := by simp [colorNum, ha, hb]
  have hm : colorNum (c :: d :: rest) = some 2 := by simp [colorNum, hc, hd]
  simp [colorArgs, hn, hm]

/-! ### `strip_fmt` -/

theorem literals_lit (s : Bytes) (items : List Item) :
    literals (.lit s :: items) = s ++ literals items := by
  simp [literals]
theorem literals_name (n : Bytes) (items : List Item) :
    literals (.name n :: items) = literals items := by
  simp [literals]
theorem literals_pair (fg bg : Bytes) (items : List Item) :
    literals (.pair fg bg :: items) = literals items := by
  simp [literals]

theorem noDigit_name (n : Bytes) (items : List Item) (h : noDigitAfterColor (.name n :: items) = true) :
    (outItem (.name n)).head? ≠ some 0x03 ∨ okNext (out items) = true := by
  simp only [noDigitAfterColor, Bool.and_eq_true] at h
  have h := h.1
  unfold okNext
  generalize (out items).head? = o at h ⊢
  cases o <;> simp at h ⊢ <;> exact h

theorem strip_out (items : List Item) (h : items.all wfItem = true)
    (hl : literalsCodeFree items = true) (hd : noDigitAfterColor items = true) :
    (stripColor (out items)).filter (fun b => !Spec.codeBytes.contains b) = literals items := by
  induction items with
  | nil => rfl
  | cons it items ih =>
    simp only [List.all_cons, Bool.and_eq_true] at h
    simp only [literalsCodeFree, List.all_cons, Bool.and_eq_true] at hl
    have hd0 := hd
    simp only [noDigitAfterColor, Bool.and_eq_true] at hd
    have ih := ih h.2 (by simpa [literalsCodeFree] using hl.2) hd.2
    have hw := h.1
    rw [out_cons]
    cases it with
    | lit s =>
      have hcf : hasCodeByte s = false := by simpa using hl.1
      have hn := noCode_of_hasCodeByte s hcf
      have h3 : ∀ b ∈ s, b ≠ 0x03 := fun b hb he => hn b hb (he ▸ three_mem_codeBytes)
      simp only [outItem]
      rw [literals_lit, ← ih, stripColor_append s _ h3, List.filter_append]
      congr 1
      rw [List.filter_eq_self]
      intro b hb
      simpa using hn b hb
    | name n =>
      simp only [wfItem, Bool.and_eq_true] at hw
      rw [literals_name, ← ih]
      have hd1 := noDigit_name n items hd0
      cases hc : colorOf (toLowerAscii n) with
      | some c =>
        have ho : outItem (.name n) = 0x03 :: twoDigits c := by simp [outItem, hc]
        obtain ⟨a, b, hab, ha, hb⟩ := twoDigits_lt16 c (colorOf_lt16 _ _ hc)
        rw [ho] at hd1 ⊢
        have hok : okNext (out items) = true := by simpa using hd1
        rw [hab]
        simp only [List.cons_append, List.nil_append]
        rw [stripColor_cons, if_pos rfl, colorArgs_two a b _ ha hb hok]
        simp
      | none =>
        have hcode : isCodeName n = true := by
          have := hw.2
          simpa [isColorName, hc] using this
        obtain ⟨v, hv⟩ := Option.isSome_iff_exists.mp hcode
        obtain ⟨b, rfl, hb⟩ := codeOf_ok _ _ hv
        have ho : outItem (.name n) = [b] := by simp [outItem, hc, hv]
        rw [ho] at hd1 ⊢
        have hbf : (!codeBytes.contains b) = false := by simpa using hb
        simp only [List.cons_append, List.nil_append]
        by_cases h3 : b = 0x03
        · have hok : okNext (out items) = true := by simpa [h3] using hd1
          rw [stripColor_cons, if_pos h3, colorArgs_okNext _ hok]
          simp only [List.filter_cons, hbf]
          simp
        · rw [stripColor_cons_ne _ _ h3]
          simp only [List.filter_cons, hbf]
          simp
    | pair fg bg =>
      simp only [wfItem, Bool.and_eq_true, isColorName] at hw
      obtain ⟨⟨⟨_, _⟩, h3⟩, h4⟩ := hw
      rw [literals_pair, ← ih]
      obtain ⟨c1, hc1⟩ := Option.isSome_iff_exists.mp h3
      obtain ⟨c2, hc2⟩ := Option.isSome_iff_exists.mp h4
      obtain ⟨a, b, hab, ha, hb⟩ := twoDigits_lt16 c1 (colorOf_lt16 _ _ hc1)
      obtain ⟨c, d, hcd, hc, hd'⟩ := twoDigits_lt16 c2 (colorOf_lt16 _ _ hc2)
      simp only [outItem, hc1, hc2, Option.getD_some, hab, hcd, List.cons_append, List.nil_append]
      rw [stripColor_cons, if_pos rfl, colorArgs_five a b c d _ ha hb hc hd']
      simp

theorem strip_fmt_aux (items : List Item) (h : items.all wfItem = true) (hl : literalsCodeFree items = true)
    (hd : noDigitAfterColor items = true) : stripRaw (fmt (src items)) = literals items := by
  rw [fmt, fmtScan_src items h, stripRaw]
  exact strip_out items h hl hd

end Girc.Proofs.Format
