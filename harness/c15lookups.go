package main

import (
	"fmt"

	"github.com/lrstanley/girc"
)

func init() {
	// Source.Equals / Event.Equals: same answer for names with the same fold, different for different folds
	runners["srceq"] = func(c *Ctx, in map[string]string) {
		a := &girc.Source{Name: in["a"], Ident: in["ia"], Host: in["ha"]}
		b := &girc.Source{Name: in["b"], Ident: in["ib"], Host: in["hb"]}
		impl := bl(a.Equals(b))
		if m := c.L.Call("srceq", encSource(a), encSource(b)); m != impl {
			c.R.Mismatch("srceq", hexIn(in), impl, m)
		}
		want := girc.ToRFC1459(a.Name) == girc.ToRFC1459(b.Name) && a.Ident == b.Ident && a.Host == b.Host
		if a.Equals(b) != want {
			c.R.Violation("lookup.source_equals", hexIn(in), impl, bl(want), "Source.Equals disagrees with 'same RFC1459 fold of the name, same ident and host'")
		}
		// identity follows the CURRENT name: a Source whose Name is rewritten (a relay, a re-used template, a copy) compares
		// by the new name — ID()/Equals() must not remember an earlier spelling
		re := &girc.Source{Name: in["a"], Ident: in["ia"], Host: in["ha"]}
		_ = re.ID()
		_ = re.Equals(b)
		cp := re.Copy()
		re.Name, cp.Name = in["b"], in["b"]
		if re.ID() != girc.ToRFC1459(in["b"]) || cp.ID() != girc.ToRFC1459(in["b"]) {
			c.R.Violation("lookup.source_id_stale", hexIn(in), re.ID()+" / "+cp.ID(), girc.ToRFC1459(in["b"]), "Source.ID() of a source (or of its copy) whose Name was changed is not the fold of the current name")
		}
		if want2 := re.Ident == b.Ident && re.Host == b.Host; re.Equals(b) != want2 || cp.Equals(b) != want2 {
			c.R.Violation("lookup.source_equals_stale", hexIn(in), bl(re.Equals(b)), bl(want2), "Source.Equals after the Name was changed still answers for the earlier name")
		}
		ea := &girc.Event{Command: "PRIVMSG", Params: []string{"#c", "hi"}, Source: a}
		eb := &girc.Event{Command: "PRIVMSG", Params: []string{"#c", "hi"}, Source: b}
		if ea.Equals(eb) != want {
			c.R.Violation("lookup.event_equals", hexIn(in), bl(ea.Equals(eb)), bl(want), "Event.Equals disagrees on sources with the same / different fold")
		}
	}
}

var foldPairs = [][2]string{{"nick", "NICK"}, {"nick[away]", "NICK{AWAY}"}, {"a\\b", "A|B"}, {"nick^", "nick~"}, {"nick^", "NICK~"}, {"Éric", "éric"}, {"K", "k"}, {"ǅ", "ǆ"}, {"nick", "nick"},
	{"nick", "nick2"}, {"a_b", "a-b"}, {"[x]", "{x}"}, {"`x", "@x"}, {"x\xe9", "x\xc9"}, {"straße", "STRASSE"}, {"ı", "i"}, {"ſ", "s"}, {"#Chan[1]", "#chan{1}"}, {"#ch^", "#CH~"}, {"&a\\", "&A|"}}

func runC15Lookups(c *Ctx) {
	r := c.R
	c.run("idreconnect", map[string]string{"scenario": "three connections of one client, renamed by 001 and by NICK"})
	r.Traces++
	for _, p := range foldPairs {
		for _, idh := range [][4]string{{"u", "u", "h", "h"}, {"u", "U", "h", "h"}, {"u", "u", "h", "H"}, {"", "", "", ""}} {
			c.run("srceq", map[string]string{"a": p[0], "b": p[1], "ia": idh[0], "ib": idh[1], "ha": idh[2], "hb": idh[3]})
			r.Count("srceq"+fmt.Sprint(p, idh), true, "source-equals")
		}
	}
	for i := 0; i < 600*c.Scale; i++ {
		a := c.Rng.From("aA[{\\|^~]}z\xe9\xc9_", 1+c.Rng.Intn(5))
		b := a
		if c.Rng.Chance(70) {
			b = variant(c.Rng, a)
		}
		if c.Rng.Chance(20) {
			b = c.Rng.From("aA[{\\|^~]}z\xe9\xc9_", 1+c.Rng.Intn(5))
		}
		c.run("srceq", map[string]string{"a": a, "b": b, "ia": "u", "ib": "u", "ha": "h", "hb": "h"})
		r.Count("srceq:"+a+"\x00"+b, a != b, "source-equals-random")
	}
	// state lookups through a real session: every tracked name queried under case-variant spellings
	for i := 0; i < 12*c.Scale; i++ {
		s := &Session{Cfg: SessCfg{Nick: "me", User: "me", AllowFlood: true}, Steps: []Step{
			{Op: "recv", Arg: ":srv 001 me :Welcome"}, {Op: "barrier"}, {Op: "waitnick", Arg: "me"},
			// whatever CASEMAPPING the server announces, the client's name-keyed queries are RFC1459 case-insensitive
			{Op: "recv", Arg: ":srv 005 me " + []string{"CASEMAPPING=ascii", "CASEMAPPING=rfc1459", "CASEMAPPING=strict-rfc1459", "NETWORK=x", "CASEMAPPING=ascii CHANTYPES=#&"}[i%5] + " :are supported by this server"},
			{Op: "recv", Arg: ":me!u@h JOIN #Chan[1]"}, {Op: "recv", Arg: ":srv 353 me = #Chan[1] :me @Bob[a] +carl\\x d^e"}, {Op: "recv", Arg: ":me!u@h JOIN &loc~"}, {Op: "recv", Arg: ":srv 353 me = &loc~ :me Bob[a]"},
			// members that arrive by JOIN (their own spelling, not the server's list), sorting before and after the existing ones
			{Op: "recv", Arg: ":Zed!z@h JOIN #Chan[1]"}, {Op: "recv", Arg: ":Alice^!a@h JOIN #Chan[1]"}, {Op: "recv", Arg: ":[Xx]!x@h JOIN &loc~"}, {Op: "recv", Arg: ":Zed!z@h JOIN &loc~"},
			// a "safe" channel: its id is upper case by grammar, but looking it up is case-insensitive like everything else
			{Op: "recv", Arg: ":me!u@h JOIN !AB3DEsafe"}, {Op: "recv", Arg: ":srv 353 me = !AB3DEsafe :me Bob[a]"},
			{Op: "barrier"}, {Op: "lookups"}}}
		res := c.RunSession(s)
		if res.Crashed || res.Wedged || len(res.Panics) > 0 {
			c.R.Violation("lookup.session_died", map[string]string{"history": hx(fmt.Sprint(s.Steps))}, fmt.Sprintf("crashed=%v wedged=%v panics=%v", res.Crashed, res.Wedged, res.Panics), "",
				"a plain two-channel session with bracket nicks (after an ISUPPORT announcement) crashed or wedged the client: a name-keyed lookup did not find what had just been stored under the same name")
			break
		}
		for _, d := range res.Snap {
			c.R.Violation("lookup.state", map[string]string{"history": hx("fixed two-channel session")}, d, "", "a name-keyed state query answered differently for two names with the same fold")
		}
		r.Count(fmt.Sprint("lookups", i), true, "state-lookups")
		r.Traces++
	}
}

// lookupsOp runs inside the worker: every name-keyed query under variant spellings.
func lookupsOp(c *girc.Client, res *SessResult) {
	rng := NewRNG(99)
	chk := func(what string, a, b interface{}) {
		if fmt.Sprint(a) != fmt.Sprint(b) {
			res.Snap = append(res.Snap, fmt.Sprintf("%s: %v vs %v", what, a, b))
		}
	}
	flip1 := func(b byte) byte {
		switch {
		case b >= 'a' && b <= 'z', b == '{' || b == '|' || b == '}' || b == '~':
			return b - 32
		case b >= 'A' && b <= 'Z', b == '[' || b == '\\' || b == ']' || b == '^':
			return b + 32
		}
		return b
	}
	spell := func(s string) []string {
		out := []string{s}
		// every spelling that differs in exactly ONE foldable byte, the one that differs in all of them, and a few random ones
		all := []byte(s)
		for i := 0; i < len(s); i++ {
			if f := flip1(s[i]); f != s[i] {
				one := []byte(s)
				one[i] = f
				out = append(out, string(one))
				all[i] = f
			}
		}
		out = append(out, string(all))
		for i := 0; i < 4; i++ {
			out = append(out, variant2(rng, s))
		}
		return out
	}
	for _, ch := range c.ChannelList() {
		base := c.LookupChannel(ch)
		chk("LookupChannel("+ch+") finds a listed channel", base != nil, true)
		for _, v := range spell(ch) {
			x := c.LookupChannel(v)
			chk("LookupChannel("+v+")", renderChannel(x), renderChannel(base))
			chk("IsInChannel("+v+")", c.IsInChannel(v), true)
			for _, u := range c.UserList() {
				uu := c.LookupUser(u)
				chk("InChannel", uu.InChannel(v), uu.InChannel(ch))
				p1, ok1 := uu.Perms.Lookup(v)
				p2, ok2 := uu.Perms.Lookup(ch)
				chk("Perms.Lookup", fmt.Sprint(p1, ok1), fmt.Sprint(p2, ok2))
			}
		}
	}
	// membership seen from both sides, under the stored spellings
	for _, ch := range c.Channels() {
		for _, n := range ch.UserList {
			chk("UserIn("+n+") for a name in "+ch.Name+".UserList", ch.UserIn(n), true)
		}
		for _, u := range c.Users() {
			chk(ch.Name+".UserIn("+u.Nick+") agrees with the user's InChannel", ch.UserIn(u.Nick), u.InChannel(ch.Name))
		}
	}
	for _, u := range c.UserList() {
		base := c.LookupUser(u)
		chk("LookupUser("+u+") finds a listed user", base != nil, true)
		for _, v := range spell(u) {
			chk("LookupUser("+v+")", renderUser(c.LookupUser(v)), renderUser(base))
			for _, ch := range c.Channels() {
				chk("UserIn", ch.UserIn(v), ch.UserIn(u))
			}
		}
	}
}

// variant2 always changes something foldable if there is anything to change.
func variant2(r *RNG, s string) string {
	b := []byte(s)
	for i := range b {
		if !r.Bool() {
			continue
		}
		switch {
		case b[i] >= 'a' && b[i] <= 'z':
			b[i] -= 32
		case b[i] >= 'A' && b[i] <= 'Z':
			b[i] += 32
		case b[i] == '[' || b[i] == '\\' || b[i] == ']' || b[i] == '^':
			b[i] += 32
		case b[i] == '{' || b[i] == '|' || b[i] == '}' || b[i] == '~':
			b[i] -= 32
		}
	}
	return string(b)
}
