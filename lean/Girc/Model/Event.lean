import Girc.Model.Tags
import Girc.Base.Utf8
/-
  Model of event.go: ParseSource, Source.writeTo/Len, ParseEvent (twice: `parseEventGo` mirrors the
  Go index arithmetic with checked slicing — a Go panic is an explicit `Fault` — and `parseEvent`
  is the list-functional version; they are proved equal), Event.Bytes, Event.LenOpts.
-/
namespace Girc.Model

-- `Source`, `Event`, `Fault` and the checked primitives `sliceI`/`atI`/`indexByteI` are declared
-- (under these same names) in Girc/Base/GoSem.lean, shared with the generated Gen/Funcs.lean.

def BANG : Byte := 0x21
def AT : Byte := 0x40

/-- `ParseSource`. -/
def parseSource (raw : Bytes) : Source :=
  let user := indexOf BANG raw
  let host := indexOf AT raw
  match user, host with
  | some (u + 1), some h =>
    if h > u + 1 then ⟨raw.take (u + 1), (raw.take h).drop (u + 2), raw.drop (h + 1)⟩
    else ⟨raw.take (u + 1), raw.drop (u + 2), []⟩
  | some (u + 1), none => ⟨raw.take (u + 1), raw.drop (u + 2), []⟩
  | _, some (h + 1) => ⟨raw.take (h + 1), [], raw.drop (h + 2)⟩
  | _, _ => ⟨raw, [], []⟩

/-- `Source.writeTo` / `String()`. -/
def sourceBytes (s : Source) : Bytes :=
  s.name ++ (if s.ident.length > 0 then BANG :: s.ident else []) ++ (if s.host.length > 0 then AT :: s.host else [])

/-- `Source.Len()`. -/
def sourceLen (s : Source) : Nat :=
  let l := s.name.length
  let l := if s.ident.length > 0 then 1 + l + s.ident.length else l
  if s.host.length > 0 then 1 + l + s.host.length else l

/-! ### Parsing, list-functional -/

/-- Position of the first ':' that is preceded by a SPACE (the byte before `ps` is the SPACE after
    the command, so position 0 qualifies). -/
def findTrailerAux : Bytes → Bool → Nat → Option Nat
  | [], _, _ => none
  | b :: rest, prevSp, pos =>
    if b = COLON && prevSp then some pos else findTrailerAux rest (b = SP) (pos + 1)

def findTrailer (ps : Bytes) : Option Nat := findTrailerAux ps true 0

def parseParams (ps : Bytes) : List Bytes :=
  match findTrailer ps with
  | none => fieldsSp ps
  | some p => (if p > 0 then fieldsSp (ps.take (p - 1)) else []) ++ [ps.drop (p + 1)]

/-- A leading `@tags ` / `:source ` section: `none` = the parser returns nil. -/
def cutSection (lead : Byte) (raw : Bytes) : Option (Option Bytes × Bytes) :=
  if raw.head? = some lead then
    match indexOf SP raw with
    | none => none
    | some i => if i < 2 then none else some (some ((raw.take i).drop 1), raw.drop (i + 1))
  else some (none, raw)

/-- `ParseEvent` (timestamp handled separately, see `Model/Time.lean`). -/
def parseEvent (raw0 : Bytes) : Option Event :=
  let raw := trimCRLF raw0
  if raw.length < 2 then none
  else match cutSection AT raw with
    | none => none
    | some (tagsRaw, raw) =>
      match cutSection COLON raw with
      | none => none
      | some (srcRaw, rest) =>
        let tags := tagsRaw.map parseTags
        let source := srcRaw.map parseSource
        match indexOf SP rest with
        | none => some { tags, source, command := toUpperAscii rest, params := [] }
        | some k => some { tags, source, command := toUpperAscii (rest.take k), params := parseParams (rest.drop (k + 1)) }

/-! ### Parsing, mirroring the Go index arithmetic (for totality) -/

/-- The `for { … }` loop that looks for the trailing parameter; state = `trailerIndex`. -/
def trailerLoopGo (raw : Bytes) (j : Int) : Nat → Int → Except Fault (Option Int)
  | 0, _ => .error .diverge
  | fuel + 1, trailerIndex => do
    let lastIndex := trailerIndex
    let s ← sliceI raw (j + lastIndex) raw.length
    let t := indexByteI s COLON
    if t = -1 then return none
    let c ← atI raw (j + lastIndex + t - 1)
    if c = SP then return some (lastIndex + t)
    trailerLoopGo raw j fuel (t + lastIndex + 1)

def parseEventGo (raw0 : Bytes) : Except Fault (Option Event) := do
  let raw := trimCRLF raw0
  if raw.length < 2 then return none
  let mut raw := raw
  let mut i : Int := 0
  let mut tags : Option Tags := none
  let mut source : Option Source := none
  let c0 ← atI raw 0
  if c0 = AT then
    i := indexByteI raw SP
    if i < 2 then return none
    tags := some (parseTags (← sliceI raw 1 i))
    raw ← sliceI raw (i + 1) raw.length
    i := 0
  if raw ≠ [] then
    let c ← atI raw 0
    if c = COLON then
      i := indexByteI raw SP
      if i < 2 then return none
      source := some (parseSource (← sliceI raw 1 i))
      i := i + 1
  let rest ← sliceI raw i raw.length
  let j := i + indexByteI rest SP
  if j < i then
    return some { tags, source, command := toUpperAscii rest, params := [] }
  let command := toUpperAscii (← sliceI raw i j)
  let j := j + 1
  match ← trailerLoopGo raw j (raw.length + 1) 0 with
  | none =>
    return some { tags, source, command, params := fieldsSp (← sliceI raw j raw.length) }
  | some off =>
    let i2 := j + off
    let mut params : List Bytes := []
    if i2 > j then
      params := fieldsSp (← sliceI raw j (i2 - 1))
    let last ← sliceI raw (i2 + 1) raw.length
    return some { tags, source, command, params := params ++ [last] }

/-! ### Serialising -/

/-- The trailing-colon rule of `Bytes`/`LenOpts` for the last parameter. -/
def needsColon (p : Bytes) : Bool := p.contains SP || p.isEmpty || p.head? = some COLON

def paramsBytes : List Bytes → Bytes
  | [] => []
  | [p] => if needsColon p then SP :: COLON :: p else SP :: p
  | p :: ps => SP :: p ++ paramsBytes ps

/-- The buffer `Event.Bytes` builds before sanitising. -/
def rawBytes (e : Event) : Bytes :=
  tagsWrite e.tags ++
  (match e.source with
   | some s => COLON :: sourceBytes s ++ [SP]
   | none => []) ++
  e.command ++ paramsBytes e.params

/-- `Event.Bytes()`: drop invalid UTF-8, then strip every CR and LF. -/
def eventBytes (e : Event) : Bytes := (toValidUTF8 [] (rawBytes e)).filter (fun b => !isCRLF b)

def paramsLen : List Bytes → Nat
  | [] => 0
  | [p] => 1 + p.length + (if needsColon p then 1 else 0)
  | p :: ps => 1 + p.length + paramsLen ps

/-- `Event.Len()` / `LenOpts` (the `includeTags` argument is unused in the Go code). -/
def eventLen (e : Event) : Nat :=
  (match e.tags with
   | some t => if t.length > 0 then tagsLen (some t) + 1 else 0
   | none => 0) +
  (match e.source with
   | some s => sourceLen s + 2
   | none => 0) +
  e.command.length + paramsLen e.params

end Girc.Model
