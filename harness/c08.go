package main

import (
	"fmt"
	"sort"
	"strings"

	"github.com/lrstanley/girc"
)

var builtinCapsGo = []string{"account-notify", "account-tag", "away-notify", "batch", "cap-notify", "chghost", "extended-join", "invite-notify",
	"message-tags", "msgid", "multi-prefix", "server-time", "userhost-in-names", "draft/message-tags-0.2", "draft/msgid"}

// possibleGo: the property's own reading of "supports by default or by configuration".
func possibleGo(sc SessCfg) map[string]bool {
	p := map[string]bool{}
	for _, k := range builtinCapsGo {
		p[k] = true
	}
	for k := range sc.SupportedCaps {
		p[k] = true
	}
	if sc.SASL != "" {
		p["sasl"] = true
	}
	if !sc.DisableSTS && !sc.SSL {
		p["sts"] = true
	}
	return p
}

func init() {
	props["C08"] = runC08
	sessionChecks["c08"] = func(c *Ctx, in, hin map[string]string, sc SessCfg, steps []string, cmp *SessCmp) {
		possible := possibleGo(sc)
		advertised := map[string]bool{}
		// walk the history in lock step with the written lines is not possible after the fact; the per-line
		// output discipline is compared against the model. Here: global safety + conclusion predicates.
		nFinalLS, nAck, nNak := 0, 0, 0
		for _, s := range steps {
			if s[0] != 'R' {
				continue
			}
			e := girc.ParseEvent(s[1:])
			if e == nil || e.Command != "CAP" || len(e.Params) < 2 {
				continue
			}
			switch e.Params[1] {
			case "LS", "NEW":
				if len(e.Params) >= 3 {
					for _, tok := range strings.Split(e.Last(), " ") {
						name := tok
						if i := strings.IndexByte(tok, '='); i >= 1 {
							name = tok[:i]
						}
						advertised[name] = true
					}
					if len(e.Params) == 3 {
						nFinalLS++
					}
				}
			case "ACK":
				if len(e.Params) == 3 {
					nAck++
				}
			case "NAK":
				nNak++
			}
		}
		// a capability the server withdrew (CAP DEL) is not reported as enabled until it is acknowledged again:
		// judged on the real client's own state dumps
		withdrawn := map[string]bool{}
		di := 0
		for _, s := range steps {
			if s == "D" {
				if di < len(cmp.ImplDump) && !sc.DisableTracking {
					for _, l := range cmp.ImplDump[di] {
						if strings.HasPrefix(l, "caps\x00") {
							for _, en := range strings.Split(strings.TrimPrefix(l, "caps\x00"), "\x01") {
								if en != "" && withdrawn[en] {
									c.R.Violation("c08.del_ignored", hin, "enabled after CAP DEL: "+en+" (dump "+fmt.Sprint(di)+": "+strings.ReplaceAll(l, "\x01", " ")+")", "", "the enabled set changes only by ACK and DEL; a capability named in CAP DEL is no longer enabled")
								}
							}
						}
					}
				}
				di++
				continue
			}
			if s[0] != 'R' {
				continue
			}
			e := girc.ParseEvent(s[1:])
			if e == nil || e.Command != "CAP" || len(e.Params) < 2 {
				continue
			}
			names := func() []string {
				var ns []string
				for _, tok := range strings.Split(e.Last(), " ") {
					if i := strings.IndexByte(tok, '='); i >= 0 {
						tok = tok[:i]
					}
					if tok != "" {
						ns = append(ns, tok)
					}
				}
				return ns
			}
			switch {
			case e.Params[1] == "DEL":
				for _, n := range names() {
					withdrawn[n] = true
				}
			case e.Params[1] == "ACK":
				for _, n := range names() {
					delete(withdrawn, strings.TrimPrefix(n, "-"))
				}
			}
		}
		// tags reach the wire only while message-tags is enabled (ACK adds it, DEL removes it)
		if !sc.DisableTracking {
			mt := false
			for sti, s := range steps {
				if s[0] == 'R' {
					if e := girc.ParseEvent(s[1:]); e != nil && e.Command == "CAP" && len(e.Params) >= 2 {
						for _, tok := range strings.Split(e.Last(), " ") {
							if i := strings.IndexByte(tok, '='); i >= 0 {
								tok = tok[:i]
							}
							if tok == "message-tags" {
								if e.Params[1] == "ACK" && len(e.Params) == 3 {
									mt = true
								}
								if e.Params[1] == "DEL" {
									mt = false
								}
							}
						}
					}
				}
				if strings.HasPrefix(s, "CSendRaw\x00@") {
					for _, l := range cmp.PerStep[sti] {
						if strings.HasPrefix(l, "@") && !mt {
							c.R.Violation("c08.tags_without_cap", hin, l, "", "message tags were put on the wire while message-tags is not enabled")
						}
						if !strings.HasPrefix(l, "@") && mt {
							c.R.Violation("c08.tags_dropped", hin, l, "", "message tags were dropped although message-tags is enabled")
						}
					}
				}
			}
		}
		nReq, nEnd, nAuth := 0, 0, 0
		for _, l := range cmp.ImplW {
			e := girc.ParseEvent(l)
			if e == nil {
				continue
			}
			if e.Command == "CAP" && len(e.Params) >= 1 {
				switch e.Params[0] {
				case "REQ":
					nReq++
					for _, tok := range strings.Fields(e.Last()) {
						if !advertised[tok] {
							c.R.Violation("c08.req_advertised", hin, l, "", "requested capability "+q(tok)+" was never advertised")
						}
						if !possible[tok] {
							c.R.Violation("c08.req_supported", hin, l, "", "requested capability "+q(tok)+" is not supported by default or by configuration")
						}
					}
				case "END":
					nEnd++
				case "LS":
				default:
					c.R.Violation("c08.unexpected", hin, l, "", "unexpected CAP subcommand written")
				}
			}
			if e.Command == "AUTHENTICATE" && len(e.Params) == 1 && (e.Params[0] == "PLAIN" || e.Params[0] == "EXTERNAL" || e.Params[0] == "CUSTOM") {
				nAuth++
			}
		}
		// per received CAP line: the exact output discipline of the property
		for sti, st := range steps {
			if st[0] != 'R' {
				continue
			}
			e := girc.ParseEvent(st[1:])
			outs, ok := cmp.PerStep[sti]
			if e == nil || e.Command != "CAP" || len(e.Params) < 2 || !ok || sc.DisableTracking {
				continue
			}
			var capOut []string
			for _, l := range outs {
				if strings.HasPrefix(l, "CAP ") || strings.HasPrefix(l, "AUTHENTICATE ") {
					capOut = append(capOut, canonLine(l))
				}
			}
			sub := e.Params[1]
			switch {
			case (sub == "LS" || sub == "NEW") && len(e.Params) >= 4:
				if len(capOut) != 0 {
					c.R.Violation("c08.continuation_silent", hin, fmt.Sprintf("%q", capOut), "[]", "the client answered a CAP LS continuation line: "+q(st[1:]))
				}
			case (sub == "LS" || sub == "NEW") && len(e.Params) == 3:
				if len(capOut) != 1 || !(strings.HasPrefix(capOut[0], "CAP REQ") || capOut[0] == "CAP END") {
					c.R.Violation("c08.final_ls_one", hin, fmt.Sprintf("%q", capOut), "exactly one REQ or END", "the final LS line was not answered by exactly one CAP REQ or CAP END: "+q(st[1:]))
				}
			case sub == "NAK":
				if len(capOut) != 1 || capOut[0] != "CAP END" {
					c.R.Violation("c08.nak_one_end", hin, fmt.Sprintf("%q", capOut), "[CAP END]", "a NAK was not answered by exactly one CAP END")
				}
			case sub == "ACK" && len(e.Params) == 3 && cmp.ImplEnd == "running":
				if len(capOut) != 1 || !(capOut[0] == "CAP END" || strings.HasPrefix(capOut[0], "AUTHENTICATE ")) {
					c.R.Violation("c08.ack_one", hin, fmt.Sprintf("%q", capOut), "exactly one END or AUTHENTICATE", "an ACK was not answered by exactly one CAP END or the start of authentication")
				}
			}
		}
		if sc.DisableTracking && (nReq+nEnd) > 0 {
			c.R.Violation("c08.tracking_disabled", hin, fmt.Sprint(cmp.ImplW), "", "CAP lines written although tracking is disabled")
		}
		if !sc.DisableTracking && cmp.ImplEnd == "running" {
			// each round concludes: final LS -> REQ or END; ACK -> END or AUTHENTICATE (or STS action); NAK -> END
			if nReq+nEnd+nAuth < nFinalLS+nAck+nNak {
				// an STS upgrade/abort ends the connection and is excluded by ImplEnd == running
				c.R.Violation("c08.concludes", hin, fmt.Sprintf("REQ=%d END=%d AUTH=%d", nReq, nEnd, nAuth), fmt.Sprintf("finalLS=%d ACK=%d NAK=%d", nFinalLS, nAck, nNak), "a negotiation round was left without REQ/END/AUTHENTICATE: registration stalls")
			}
		}
	}
}

func runC08(c *Ctx) {
	// one client, several connections: the negotiation state of the previous one must not leak
	for _, rounds := range []string{
		"drop;multi-prefix away-notify|ack;server-time",
		"nak;multi-prefix account-tag|ack;away-notify",
		"partial;multi-prefix chghost|ack;server-time batch",
		"ack;multi-prefix message-tags|ack;away-notify",
		"drop;away-notify|drop;multi-prefix|ack;account-notify server-time",
		"ack;multi-prefix|nak;away-notify|ack;chghost",
		"ack;multi-prefix message-tags|ack;not-a-capability-we-know",
		"ack;message-tags|nak;message-tags|ack;message-tags",
	} {
		c.run("capreconnect", map[string]string{"rounds": rounds})
	}
	c.run("capsharedconfig", map[string]string{"scenario": "two clients built from one SupportedCaps map"})
	c.run("tagsqueue", map[string]string{"scenario": "write blocked, tagged event queued, CAP DEL, drain"})
	r := c.R
	r.Rule = "real sessions: server behaviours over CAP LS (0-3 '*' continuation lines), ACK (of what was requested, of a subset, of junk), NAK, NEW, DEL in any order, capability lists drawn from supported/unsupported/junk with and without values, " +
		"crossed with configurations (SASL on/off, extra SupportedCaps with and without values, DisableSTS, SSL, tracking disabled); state dumps (enabled/pending caps) and HasCapability compared with the model, " +
		"safety/conclusion predicates evaluated on the implementation; non-trivial = a final LS line advertising >= 2 capabilities; distinct = distinct (config, history)"
	for _, hist := range [][]string{
		{"R:srv CAP * LS :message-tags multi-prefix", "R:srv CAP * ACK :message-tags multi-prefix", "CSendRaw\x00@+a=b PRIVMSG #c :one", "R:srv CAP me DEL :message-tags", "D", "CSendRaw\x00@+a=b PRIVMSG #c :two", "CSendRaw\x00@+a=b PRIVMSG #c :three", "D"},
		{"R:srv CAP * LS :message-tags", "R:srv CAP * ACK :message-tags", "CSendRaw\x00@x=y NOTICE bob :one", "R:srv CAP me DEL :message-tags", "CSendRaw\x00@x=y NOTICE bob :two", "R:srv CAP me NEW :message-tags", "R:srv CAP me ACK :message-tags", "CSendRaw\x00@x=y NOTICE bob :three", "D"},
		{"CSendRaw\x00@x=y NOTICE bob :zero", "R:srv CAP * LS :multi-prefix", "R:srv CAP * ACK :multi-prefix", "CSendRaw\x00@x=y NOTICE bob :one", "D"},
	} {
		in := map[string]string{"nick": "me", "check": "c08", "nosts": "1"}
		stepsToIn(in, hist)
		c.run("session", in)
		r.Count(fmt.Sprint(in), true, "scripted-tags")
	}
	pool := []string{"multi-prefix", "sasl", "sasl=PLAIN,EXTERNAL", "sts=port=6697", "sts=duration=100", "account-tag", "away-notify", "message-tags", "server-time", "foo", "foo=bar", "bar=a,b=c", "echo-message", "userhost-in-names", "draft/msgid", "", "=x", "MULTI-PREFIX", "batch"}
	for i := 0; i < 150*c.Scale; i++ {
		in := map[string]string{"nick": "me", "check": "c08"}
		if c.Rng.Chance(40) {
			in["sasl"], in["sasluser"], in["saslpass"] = "plain", "u", "p"
		}
		if c.Rng.Chance(30) {
			in["caps"] = c.Rng.Pick([]string{"foo", "foo\x00bar", "echo-message\x01bar\x00a", "sts", "sasl"})
		}
		if c.Rng.Chance(40) {
			in["nosts"] = "1" // avoid STS actions in most runs (covered by C10)
		}
		if c.Rng.Chance(15) {
			in["ssl"] = "1"
		}
		if c.Rng.Chance(10) {
			in["notrack"] = "1"
		}
		var steps []string
		if c.Rng.Chance(30) {
			steps = append(steps, "R:srv 001 me :Welcome")
		}
		adv := 0
		// whom the server addresses its CAP replies to before registration: "*", or whatever it currently calls us (after a
		// nick collision, a truncated or forced nick); the negotiation does not depend on it
		tgt := "*"
		if c.Rng.Chance(30) {
			tgt = c.Rng.Pick([]string{"me_", "m", "Guest4711"})
			if tgt == "me_" {
				steps = append(steps, "R:srv 433 * me :Nickname is already in use")
			}
		}
		for k := 1 + c.Rng.Intn(6); k > 0; k-- {
			caps := func(n int) string {
				var l []string
				for j := 0; j < n; j++ {
					l = append(l, c.Rng.Pick(pool))
				}
				return strings.Join(l, " ")
			}
			switch c.Rng.Intn(8) {
			case 0, 1, 2:
				for m := c.Rng.Intn(3); m > 0; m-- {
					steps = append(steps, "R:srv CAP "+tgt+" LS * :"+caps(1+c.Rng.Intn(4)))
				}
				n := c.Rng.Intn(5)
				adv = n
				steps = append(steps, "R:srv CAP "+tgt+" LS :"+caps(n))
			case 3, 4:
				// ACK: what a server would send — the names the client asked for (from the model's view: the supported ones)
				var names []string
				for _, p := range pool {
					name := strings.SplitN(p, "=", 2)[0]
					if name == "sts" && in["nosts"] != "1" {
						continue // an acknowledged STS policy acts on the transport: covered by C10
					}
					if possibleGo(cfgFromIn(in))[name] && c.Rng.Chance(50) {
						names = append(names, name)
					}
				}
				sort.Strings(names)
				if c.Rng.Chance(15) {
					names = append(names, "junk")
				}
				steps = append(steps, "R:srv CAP "+tgt+" ACK :"+strings.Join(names, " "))
			case 5:
				steps = append(steps, "R:srv CAP "+tgt+" NAK :"+caps(1+c.Rng.Intn(2)))
			case 6:
				steps = append(steps, "R:srv CAP me NEW :"+caps(1+c.Rng.Intn(3)))
			default:
				steps = append(steps, "R:srv CAP me DEL :"+caps(1+c.Rng.Intn(2)))
			}
			if c.Rng.Chance(30) {
				steps = append(steps, "D")
			}
			if c.Rng.Chance(35) {
				// the application sends a tagged message: the tags reach the wire only while message-tags is enabled
				steps = append(steps, fmt.Sprintf("CSendRaw\x00@+a=b;c PRIVMSG #chan :tagged %d", k))
			}
		}
		steps = append(steps, "D")
		stepsToIn(in, steps)
		c.run("session", in)
		r.Count(fmt.Sprint(in), adv >= 2, fmt.Sprintf("sasl=%v", in["sasl"] != ""), fmt.Sprintf("notrack=%v", in["notrack"] == "1"))
		r.Traces++
		if i < 2 {
			r.Sample(steps)
		}
	}
}
