import Girc.Proofs.TransFormat
import Girc.Proofs.TransCtcp
import Girc.Proofs.TransSource
import Girc.Model.EventHelpers
/-
  Translator equivalence, event.go query helpers: (*Event).Last, IsCTCP, IsAction, StripAction, IsFromChannel,
  IsFromUser, (*Source).ID, Equals, IsHostmask, IsServer.
-/
set_option linter.unusedSimpArgs false
namespace Girc.Proofs.Trans
open Girc Girc.Model Girc.Go Girc.Gen

theorem atL_last (l : List Bytes) (h : l.length ≥ 1) : atL l ((l.length : Int) - 1) = .ok (l.getLastD []) := by
  have e : (l.length : Int) - 1 = ((l.length - 1 : Nat) : Int) := by omega
  rw [e]
  apply atL_nat
  cases l with
  | nil => simp at h
  | cons x xs =>
    rw [List.getLastD_eq_getLast?, List.getLast?_eq_getElem?]
    simp

theorem Event_Last_eq (e : Event) : Fn.Event_Last (some e) = .ok (eventLast e) := by
  unfold Fn.Event_Last eventLast
  simp only [deref_some, bind, Except.bind, pure, Except.pure]
  by_cases h : e.params.length ≥ 1
  · have c : decide (len e.params ≥ 1) = true := by dec_tac
    have hl := atL_last e.params h
    simp only [c, if_true]
    simp only [len, hl]
  · have c : decide (len e.params ≥ 1) = false := by dec_tac
    have : e.params = [] := by cases hp : e.params with
      | nil => rfl
      | cons => simp [hp] at h
    simp only [c, Bool.false_eq_true, if_false, this]
    rfl

theorem Event_Last_nil : Fn.Event_Last none = .error .nilDeref := rfl

theorem Event_IsCTCP_eq (e : Event) : Fn.Event_IsCTCP (some e) = .ok (isCTCP e) := by
  unfold Fn.Event_IsCTCP isCTCP
  simp [DecodeCTCP_eq, bind, Except.bind, pure, Except.pure]

theorem Event_IsAction_eq (e : Event) : Fn.Event_IsAction (some e) = .ok (isAction e) := by
  unfold Fn.Event_IsAction isAction
  have hp : Fn.PRIVMSG = PRIVMSG := rfl
  have ha : Fn.CTCP_ACTION = CTCP_ACTION := rfl
  simp only [deref_some, bind, Except.bind, pure, Except.pure, Event_IsCTCP_eq, isCTCP, hp, ha]
  by_cases hc : e.command = PRIVMSG
  · have c1 : (e.command != PRIVMSG) = false := by simp [hc]
    have c2 : (e.command == PRIVMSG) = true := by simp [hc]
    simp only [c1, c2, Bool.false_eq_true, if_false, Bool.true_and]
    cases decodeCTCP e with
    | none => rfl
    | some c => rfl
  · have c1 : (e.command != PRIVMSG) = true := by simp [hc]
    have c2 : (e.command == PRIVMSG) = false := by simp [hc]
    simp [c1, c2]

theorem Event_IsAction_nil : Fn.Event_IsAction none = .error .nilDeref := rfl

/-- `StripAction` panics (slice bounds) exactly where the model says `none`. -/
theorem Event_StripAction_eq (e : Event) :
    Fn.Event_StripAction (some e) = (match stripAction e with
                                     | some b => .ok b
                                     | none => .error .sliceBounds) := by
  unfold Fn.Event_StripAction stripAction
  simp only [Event_IsAction_eq, Event_Last_eq, bind, Except.bind, pure, Except.pure]
  cases isAction e with
  | false => simp
  | true =>
    simp only [Bool.not_true, Bool.false_eq_true, if_false, if_true]
    by_cases h : (eventLast e).length < 9
    · simp only [h, if_true]
      unfold sliceI
      rw [if_neg (by simp only [len]; omega)]
    · simp only [h, if_false]
      have s := sliceI_int (eventLast e) 8 (len (eventLast e) - 1) 8 ((eventLast e).length - 1) rfl
        (by simp only [len]; omega) (by omega) (by omega)
      rw [s]
      congr 1
      rw [List.dropLast_eq_take, List.length_drop]
      have : (eventLast e).length - 1 - 8 = (eventLast e).length - 8 - 1 := by omega
      rw [this]

theorem isChat_go (e : Event) (test : Bytes → Bool) (F : Bytes → Except Fault Bool) (hF : ∀ s, F s = .ok (test s)) :
    (do
      if (← orE (orE (do pure (← deref (some e)).source.isNone) (andE (do pure ((← deref (some e)).command != Fn.PRIVMSG)) (do pure ((← deref (some e)).command != Fn.NOTICE)))) (do pure (decide ((len (← deref (some e)).params) < 1)))) then
        return false
      if (!(← F (← atL (← deref (some e)).params 0))) then
        return false
      return true : Except Fault Bool) = .ok (isChatTo test e) := by
  unfold isChatTo
  have hp : Fn.PRIVMSG = PRIVMSG := rfl
  have hn : Fn.NOTICE = NOTICE := rfl
  simp only [deref_some, bind, Except.bind, pure, Except.pure, andE_ok_ok, orE_ok_ok, hp, hn, hF]
  obtain ⟨tags, source, command, params⟩ := e
  cases params with
  | nil =>
    have c : decide (len ([] : List Bytes) < 1) = true := by decide
    simp [c]
  | cons p ps =>
    have c : decide (len (p :: ps) < 1) = false := by dec_tac
    have hat : atL (p :: ps) 0 = .ok p := atL_nat (p :: ps) 0 p rfl
    simp only [c, Bool.or_false, hat, List.head?_cons]
    cases source <;> by_cases h1 : command = PRIVMSG <;> by_cases h2 : command = NOTICE <;> cases test p <;>
      simp [h1, h2]

theorem Event_IsFromChannel_eq (e : Event) : Fn.Event_IsFromChannel (some e) = .ok (isFromChannel e) :=
  isChat_go e isValidChannel Fn.IsValidChannel IsValidChannel_eq

theorem Event_IsFromUser_eq (e : Event) : Fn.Event_IsFromUser (some e) = .ok (isFromUser e) :=
  isChat_go e isValidNick Fn.IsValidNick IsValidNick_eq

theorem Event_IsFromChannel_nil : Fn.Event_IsFromChannel none = .error .nilDeref := rfl
theorem Event_IsFromUser_nil : Fn.Event_IsFromUser none = .error .nilDeref := rfl

/-! ### Source -/

theorem Source_ID_eq (s : Source) : Fn.Source_ID (some s) = .ok (sourceID s) := by
  unfold Fn.Source_ID sourceID
  simp [ToRFC1459_eq, bind, Except.bind, pure, Except.pure]

theorem Source_ID_nil : Fn.Source_ID none = .error .nilDeref := rfl

theorem Source_Equals_eq (a b : Option Source) : Fn.Source_Equals a b = .ok (sourceEq a b) := by
  unfold Fn.Source_Equals sourceEq
  cases a with
  | none => cases b <;> rfl
  | some x =>
    cases b with
    | none => rfl
    | some y =>
      simp only [Option.isNone_some, Option.isSome_some, Bool.false_and, Bool.and_false, Bool.or_false,
        Bool.false_eq_true, if_false, Source_ID_eq, deref_some, bind, Except.bind, pure, Except.pure, orE_ok_ok]
      by_cases h1 : sourceID x = sourceID y <;> by_cases h2 : x.ident = y.ident <;> by_cases h3 : x.host = y.host <;>
        simp [h1, h2, h3]

theorem Source_IsHostmask_eq (s : Source) : Fn.Source_IsHostmask (some s) = .ok (isHostmask s) := by
  unfold Fn.Source_IsHostmask isHostmask
  simp only [deref_some, bind, Except.bind, pure, Except.pure, andE_ok_ok]
  have e1 : decide (len s.ident > 0) = decide (s.ident.length > 0) := by decc_tac
  have e2 : decide (len s.host > 0) = decide (s.host.length > 0) := by decc_tac
  rw [e1, e2]

theorem Source_IsServer_eq (s : Source) : Fn.Source_IsServer (some s) = .ok (isServer s) := by
  unfold Fn.Source_IsServer isServer
  simp only [deref_some, bind, Except.bind, pure, Except.pure, andE_ok_ok]
  cases s.ident <;> cases s.host <;> rfl

theorem Source_IsHostmask_nil : Fn.Source_IsHostmask none = .error .nilDeref := rfl
theorem Source_IsServer_nil : Fn.Source_IsServer none = .error .nilDeref := rfl

end Girc.Proofs.Trans
