import Girc.Base.Bytes
/-
  Models of the Go standard-library functions girc calls on the pure paths.
  "Modelled, not verified": each is differentially tested against the real function in the
  `stdlib` stream of the harness.
-/
namespace Girc

def SP : Byte := 0x20
def CR : Byte := 0x0D
def LF : Byte := 0x0A
def NUL : Byte := 0x00
def COLON : Byte := 0x3A

def isCRLF (b : Byte) : Bool := b = CR || b = LF

/-- `strings.TrimFunc(s, cutCRFunc)`: CR and LF are ASCII, so the rune-wise trim is byte-wise. -/
def trimCRLF (s : Bytes) : Bytes := ((s.dropWhile isCRLF).reverse.dropWhile isCRLF).reverse

/-- `strings.FieldsFunc(s, r == ' ')`: maximal runs of non-SPACE bytes. -/
def fieldsSpAux : Bytes → Bytes → List Bytes
  | [], cur => if cur.isEmpty then [] else [cur.reverse]
  | b :: rest, cur =>
    if b = SP then (if cur.isEmpty then fieldsSpAux rest [] else cur.reverse :: fieldsSpAux rest [])
    else fieldsSpAux rest (b :: cur)

def fieldsSp (s : Bytes) : List Bytes := fieldsSpAux s []

def upper1 (b : Byte) : Byte := if 0x61 ≤ b && b ≤ 0x7A then b - 0x20 else b
def lower1 (b : Byte) : Byte := if 0x41 ≤ b && b ≤ 0x5A then b + 0x20 else b

def isAscii (s : Bytes) : Bool := s.all (· < 0x80)

/-- `strings.ToUpper` on ASCII input (non-ASCII input is outside the model: the driver flags it). -/
def toUpperAscii (s : Bytes) : Bytes := s.map upper1
def toLowerAscii (s : Bytes) : Bytes := s.map lower1

/-- `strings.Contains(s, " ")` etc. -/
def containsByte (b : Byte) (s : Bytes) : Bool := s.contains b

/-- `strconv.Atoi` for what girc feeds it: optional sign, decimal digits, no overflow handling
    beyond int64 (an overflow is an error). -/
def digitsVal : Bytes → Option Nat
  | [] => none
  | s => s.foldl (fun (acc : Option Nat) (b : Byte) => match acc with
      | none => none
      | some n => if 0x30 ≤ b && b ≤ 0x39 then some (n * 10 + (b.toNat - 0x30)) else none) (some 0)

def atoi (s : Bytes) : Option Int :=
  match s with
  | [] => none
  | 0x2B :: rest => (digitsVal rest).bind fun n => if n < 2^63 then some (n : Int) else none
  | 0x2D :: rest => (digitsVal rest).bind fun n => if n ≤ 2^63 then some (-(n : Int)) else none
  | _ => (digitsVal s).bind fun n => if n < 2^63 then some (n : Int) else none

end Girc
