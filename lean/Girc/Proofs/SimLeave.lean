import Girc.Spec.Sim
import Girc.Proofs.InvHandlers
/-
  C04 proofs, part 4: messages that remove members (PART, KICK, QUIT), with users forgotten exactly
  when they share no tracked channel.
  In every statement `st`/`r` are the states AFTER the account-tag step.
-/
namespace Girc.Proofs.SimLeave
open Girc Girc.Model Girc.Spec

theorem sim_PART {st : St} {r : Ref} (cfg : Cfg) (e : Event) (h : Sim st r)
    (hc : r.conformant cfg e = true) (hcmd : e.command = cPART) :
    ∃ st', handlePART cfg st e = .ok st' ∧ Sim st' (r.cmdStep cfg e) := by sorry

theorem sim_KICK {st : St} {r : Ref} (cfg : Cfg) (e : Event) (h : Sim st r)
    (hc : r.conformant cfg e = true) (hcmd : e.command = cKICK) :
    ∃ st', handleKICK cfg st e = .ok st' ∧ Sim st' (r.cmdStep cfg e) := by sorry

theorem sim_QUIT {st : St} {r : Ref} (cfg : Cfg) (e : Event) (h : Sim st r)
    (hc : r.conformant cfg e = true) (hcmd : e.command = cQUIT) :
    ∃ st', handleQUIT cfg st e = .ok st' ∧ Sim st' (r.cmdStep cfg e) := by sorry

end Girc.Proofs.SimLeave
