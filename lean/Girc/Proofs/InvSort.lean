import Girc.Spec.Inv
import Girc.Proofs.TagsAux
/-
  Sorted-list library for the state invariant: `bytesLt` is a strict total order, `insertSorted` /
  `sortBytes` / `appendSort` / `List.erase` on strictly sorted lists, and the `folded` predicate.
  Everything lives in the namespace `Girc.Proofs.InvBase` (shared with InvAMap.lean / InvBase.lean).
-/
namespace Girc.Proofs.InvBase
open Girc Girc.Model Girc.Spec

/-! ### `bytesLt` is a strict total order -/

theorem bytesLt_nil_cons (b : UInt8) (bs : Bytes) : bytesLt [] (b :: bs) = true := rfl
theorem bytesLt_nil_right (a : Bytes) : bytesLt a [] = false := by cases a <;> rfl

theorem bytesLt_cons_cons (a b : UInt8) (as bs : Bytes) :
    bytesLt (a :: as) (b :: bs) = if a < b then true else if b < a then false else bytesLt as bs := rfl

theorem bytesLt_irrefl (a : Bytes) : bytesLt a a = false := by
  induction a with
  | nil => rfl
  | cons x xs ih => rw [bytesLt_cons_cons, if_neg (UInt8.lt_irrefl x), if_neg (UInt8.lt_irrefl x), ih]

theorem bytesLt_trans {a b c : Bytes} (h1 : bytesLt a b = true) (h2 : bytesLt b c = true) :
    bytesLt a c = true := by
  induction a generalizing b c with
  | nil =>
    cases c with
    | nil => rw [bytesLt_nil_right] at h2; cases h2
    | cons z zs => rfl
  | cons x xs ih =>
    cases b with
    | nil => cases h1
    | cons y ys =>
      cases c with
      | nil => cases h2
      | cons z zs =>
        rw [bytesLt_cons_cons] at h1 h2 ⊢
        simp only [UInt8.lt_iff_toNat_lt] at h1 h2 ⊢
        split at h1
        · split at h2
          · rw [if_pos (by omega)]
          · split at h2
            · cases h2
            · rw [if_pos (by omega)]
        · split at h1
          · cases h1
          · split at h2
            · rw [if_pos (by omega)]
            · split at h2
              · cases h2
              · rw [if_neg (by omega), if_neg (by omega)]; exact ih h1 h2

theorem bytesLt_trichotomy (a b : Bytes) : bytesLt a b = true ∨ a = b ∨ bytesLt b a = true := by
  induction a generalizing b with
  | nil =>
    cases b with
    | nil => exact Or.inr (Or.inl rfl)
    | cons y ys => exact Or.inl rfl
  | cons x xs ih =>
    cases b with
    | nil => exact Or.inr (Or.inr rfl)
    | cons y ys =>
      rw [bytesLt_cons_cons, bytesLt_cons_cons]
      by_cases hxy : x < y
      · rw [if_pos hxy]; exact Or.inl rfl
      · by_cases hyx : y < x
        · rw [if_neg hxy, if_pos hyx, if_pos hyx]; exact Or.inr (Or.inr rfl)
        · rw [if_neg hxy, if_neg hyx, if_neg hyx, if_neg hxy]
          have hxy' : x = y := by
            apply UInt8.toNat_inj.mp
            rw [UInt8.lt_iff_toNat_lt] at hxy hyx
            omega
          subst hxy'
          rcases ih ys with h | h | h
          · exact Or.inl h
          · exact Or.inr (Or.inl (by rw [h]))
          · exact Or.inr (Or.inr h)

theorem bytesLt_asymm {a b : Bytes} (h : bytesLt a b = true) : bytesLt b a = false := by
  cases hba : bytesLt b a with
  | false => rfl
  | true => have := bytesLt_trans h hba; rw [bytesLt_irrefl] at this; cases this

theorem bytesLt_ne {a b : Bytes} (h : bytesLt a b = true) : a ≠ b := by
  intro e; subst e; rw [bytesLt_irrefl] at h; cases h

theorem bytesLe_iff (a b : Bytes) : bytesLe a b = true ↔ bytesLt a b = true ∨ a = b := by
  unfold bytesLe
  constructor
  · intro h
    rcases bytesLt_trichotomy a b with h' | h' | h'
    · exact Or.inl h'
    · exact Or.inr h'
    · rw [h'] at h; cases h
  · rintro (h | h)
    · rw [bytesLt_asymm h]; rfl
    · subst h; rw [bytesLt_irrefl]; rfl

theorem bytesLe_refl (a : Bytes) : bytesLe a a = true := (bytesLe_iff a a).mpr (Or.inr rfl)

theorem not_bytesLe_iff (a b : Bytes) : bytesLe a b = false ↔ bytesLt b a = true := by
  unfold bytesLe; cases bytesLt b a <;> simp

/-! ### `sortedStrict` as `Pairwise bytesLt` -/

theorem sortedStrict_nil : sortedStrict [] = true := rfl
theorem sortedStrict_singleton (a : Bytes) : sortedStrict [a] = true := rfl
theorem sortedStrict_cons_cons (a b : Bytes) (l : List Bytes) :
    sortedStrict (a :: b :: l) = (bytesLt a b && sortedStrict (b :: l)) := rfl

theorem sortedStrict_iff_pairwise (l : List Bytes) :
    sortedStrict l = true ↔ l.Pairwise (fun a b => bytesLt a b = true) := by
  induction l with
  | nil => simp [sortedStrict]
  | cons a l ih =>
    cases l with
    | nil => simp [sortedStrict]
    | cons b l =>
      rw [sortedStrict_cons_cons, Bool.and_eq_true, ih, List.pairwise_cons (l := b :: l)]
      constructor
      · rintro ⟨hab, hp⟩
        refine ⟨?_, hp⟩
        intro c hc
        rcases List.mem_cons.mp hc with rfl | hc
        · exact hab
        · exact bytesLt_trans hab ((List.pairwise_cons.mp hp).1 c hc)
      · rintro ⟨hall, hp⟩
        exact ⟨hall b (List.mem_cons_self), hp⟩

theorem sortedStrict_pairwise {l : List Bytes} (h : sortedStrict l = true) :
    l.Pairwise (fun a b => bytesLt a b = true) := (sortedStrict_iff_pairwise l).mp h

theorem sortedStrict_cons_iff (a : Bytes) (l : List Bytes) :
    sortedStrict (a :: l) = true ↔ (∀ b ∈ l, bytesLt a b = true) ∧ sortedStrict l = true := by
  rw [sortedStrict_iff_pairwise, sortedStrict_iff_pairwise, List.pairwise_cons]

theorem sortedStrict_tail {a : Bytes} {l : List Bytes} (h : sortedStrict (a :: l) = true) :
    sortedStrict l = true := ((sortedStrict_cons_iff a l).mp h).2

theorem sortedStrict_nodup {l : List Bytes} (h : sortedStrict l = true) : l.Nodup := by
  have hp := sortedStrict_pairwise h
  exact hp.imp (fun hab => bytesLt_ne hab)

theorem sortedStrict_sublist {l₁ l₂ : List Bytes} (hs : l₁.Sublist l₂) (h : sortedStrict l₂ = true) :
    sortedStrict l₁ = true :=
  (sortedStrict_iff_pairwise l₁).mpr ((sortedStrict_pairwise h).sublist hs)

/-! ### `List.erase` / `eraseFirst` on strictly sorted lists -/

theorem eraseFirst_eq (l : List Bytes) (x : Bytes) : eraseFirst l x = l.erase x := rfl

theorem sortedStrict_erase {l : List Bytes} (x : Bytes) (h : sortedStrict l = true) :
    sortedStrict (l.erase x) = true :=
  sortedStrict_sublist List.erase_sublist h

theorem mem_erase_of_nodup {l : List Bytes} (h : l.Nodup) (x y : Bytes) :
    y ∈ l.erase x ↔ y ≠ x ∧ y ∈ l := h.mem_erase_iff

theorem mem_erase_of_sortedStrict {l : List Bytes} (h : sortedStrict l = true) (x y : Bytes) :
    y ∈ l.erase x ↔ y ≠ x ∧ y ∈ l := mem_erase_of_nodup (sortedStrict_nodup h) x y

theorem erase_of_not_mem {l : List Bytes} {x : Bytes} (h : x ∉ l) : l.erase x = l :=
  List.erase_of_not_mem h

/-- If erasing `x` from a duplicate-free list leaves nothing, every element was `x`. -/
theorem eq_of_erase_eq_nil {l : List Bytes} (hnd : l.Nodup) {x y : Bytes} (he : l.erase x = [])
    (hy : y ∈ l) : y = x := by
  by_cases hyx : y = x
  · exact hyx
  · have : y ∈ l.erase x := (mem_erase_of_nodup hnd x y).mpr ⟨hyx, hy⟩
    rw [he] at this; cases this

theorem erase_ne_nil_of_mem_ne {l : List Bytes} (hnd : l.Nodup) {x y : Bytes} (hy : y ∈ l) (hyx : y ≠ x) :
    l.erase x ≠ [] := by
  intro he; exact hyx (eq_of_erase_eq_nil hnd he hy)

theorem length_eq_zero_iff_nil (l : List Bytes) : l.length = 0 ↔ l = [] := List.length_eq_zero_iff

/-! ### `insertSorted`, `sortBytes`, `appendSort` -/

theorem insertSorted_nil (x : Bytes) : insertSorted x [] = [x] := rfl
theorem insertSorted_cons (x y : Bytes) (ys : List Bytes) :
    insertSorted x (y :: ys) = if bytesLe x y then x :: y :: ys else y :: insertSorted x ys := rfl

theorem sortBytes_nil : sortBytes [] = [] := rfl
theorem sortBytes_cons (x : Bytes) (l : List Bytes) : sortBytes (x :: l) = insertSorted x (sortBytes l) := rfl

theorem insertSorted_perm (x : Bytes) (l : List Bytes) : (insertSorted x l).Perm (x :: l) :=
  TagsAux.insertSorted_perm x l

theorem sortBytes_perm (l : List Bytes) : (sortBytes l).Perm l := TagsAux.sortBytes_perm l

theorem mem_insertSorted (x y : Bytes) (l : List Bytes) : y ∈ insertSorted x l ↔ y = x ∨ y ∈ l := by
  rw [(insertSorted_perm x l).mem_iff, List.mem_cons]

theorem mem_sortBytes (x : Bytes) (l : List Bytes) : x ∈ sortBytes l ↔ x ∈ l :=
  (sortBytes_perm l).mem_iff

theorem length_insertSorted (x : Bytes) (l : List Bytes) : (insertSorted x l).length = l.length + 1 := by
  rw [(insertSorted_perm x l).length_eq, List.length_cons]

theorem length_sortBytes (l : List Bytes) : (sortBytes l).length = l.length :=
  (sortBytes_perm l).length_eq

theorem sortBytes_eq_nil_iff (l : List Bytes) : sortBytes l = [] ↔ l = [] := by
  rw [← List.length_eq_zero_iff, length_sortBytes, List.length_eq_zero_iff]

theorem nodup_sortBytes (l : List Bytes) : (sortBytes l).Nodup ↔ l.Nodup :=
  (sortBytes_perm l).nodup_iff

theorem appendSort_perm (l : List Bytes) (x : Bytes) : (appendSort l x).Perm (x :: l) := by
  unfold appendSort
  exact (sortBytes_perm _).trans (List.perm_append_comm (l₁ := l) (l₂ := [x]))

theorem mem_appendSort (l : List Bytes) (x y : Bytes) : y ∈ appendSort l x ↔ y = x ∨ y ∈ l := by
  rw [(appendSort_perm l x).mem_iff, List.mem_cons]

theorem length_appendSort (l : List Bytes) (x : Bytes) : (appendSort l x).length = l.length + 1 := by
  rw [(appendSort_perm l x).length_eq, List.length_cons]

theorem appendSort_ne_nil (l : List Bytes) (x : Bytes) : appendSort l x ≠ [] := by
  intro h
  have := length_appendSort l x
  rw [h] at this; cases this

/-- Inserting a new element into a strictly sorted list keeps it strictly sorted. -/
theorem sortedStrict_insertSorted {l : List Bytes} {x : Bytes} (h : sortedStrict l = true) (hx : x ∉ l) :
    sortedStrict (insertSorted x l) = true := by
  induction l with
  | nil => rfl
  | cons y ys ih =>
    rw [insertSorted_cons]
    have hxy : x ≠ y := fun e => hx (e ▸ List.mem_cons_self)
    have hxys : x ∉ ys := fun e => hx (List.mem_cons_of_mem _ e)
    obtain ⟨hall, htail⟩ := (sortedStrict_cons_iff y ys).mp h
    cases hle : bytesLe x y with
    | true =>
      rw [if_pos rfl]
      have hlt : bytesLt x y = true := by
        rcases (bytesLe_iff x y).mp hle with h' | h'
        · exact h'
        · exact absurd h' hxy
      rw [sortedStrict_cons_cons, hlt, h]; rfl
    | false =>
      rw [if_neg (by simp)]
      have hlt : bytesLt y x = true := (not_bytesLe_iff x y).mp hle
      rw [sortedStrict_cons_iff]
      refine ⟨?_, ih htail hxys⟩
      intro b hb
      rcases (mem_insertSorted x b ys).mp hb with rfl | hb
      · exact hlt
      · exact hall b hb

theorem sortedStrict_sortBytes {l : List Bytes} (h : l.Nodup) : sortedStrict (sortBytes l) = true := by
  induction l with
  | nil => rfl
  | cons x xs ih =>
    rw [sortBytes_cons]
    obtain ⟨hx, hxs⟩ := List.nodup_cons.mp h
    exact sortedStrict_insertSorted (ih hxs) (fun hm => hx ((mem_sortBytes x xs).mp hm))

theorem sortedStrict_sortBytes_iff (l : List Bytes) : sortedStrict (sortBytes l) = true ↔ l.Nodup :=
  ⟨fun h => (nodup_sortBytes l).mp (sortedStrict_nodup h), sortedStrict_sortBytes⟩

/-- Inserting below the head. -/
theorem insertSorted_of_forall_lt {l : List Bytes} {x : Bytes} (h : ∀ y ∈ l, bytesLt x y = true) :
    insertSorted x l = x :: l := by
  cases l with
  | nil => rfl
  | cons y ys =>
    rw [insertSorted_cons, if_pos ((bytesLe_iff x y).mpr (Or.inl (h y List.mem_cons_self)))]

/-- Sorting an already strictly sorted list does nothing. -/
theorem sortBytes_of_sortedStrict {l : List Bytes} (h : sortedStrict l = true) : sortBytes l = l := by
  induction l with
  | nil => rfl
  | cons x xs ih =>
    obtain ⟨hall, htail⟩ := (sortedStrict_cons_iff x xs).mp h
    rw [sortBytes_cons, ih htail, insertSorted_of_forall_lt hall]

/-- Two strictly sorted lists with the same elements are equal. -/
theorem sortedStrict_ext {l₁ l₂ : List Bytes} (h₁ : sortedStrict l₁ = true) (h₂ : sortedStrict l₂ = true)
    (hm : ∀ x, x ∈ l₁ ↔ x ∈ l₂) : l₁ = l₂ := by
  induction l₁ generalizing l₂ with
  | nil =>
    cases l₂ with
    | nil => rfl
    | cons b l₂ => exact absurd ((hm b).mpr List.mem_cons_self) (by simp)
  | cons a l₁ ih =>
    cases l₂ with
    | nil => exact absurd ((hm a).mp List.mem_cons_self) (by simp)
    | cons b l₂ =>
      obtain ⟨ha, hl₁⟩ := (sortedStrict_cons_iff a l₁).mp h₁
      obtain ⟨hb, hl₂⟩ := (sortedStrict_cons_iff b l₂).mp h₂
      have hab : a = b := by
        rcases List.mem_cons.mp ((hm a).mp List.mem_cons_self) with e | hin
        · exact e
        · rcases List.mem_cons.mp ((hm b).mpr List.mem_cons_self) with e | hin'
          · exact e.symm
          · have h1 := hb a hin
            have h2 := ha b hin'
            rw [bytesLt_asymm h1] at h2; cases h2
      subst hab
      congr 1
      apply ih hl₁ hl₂
      intro x
      constructor
      · intro hx
        rcases List.mem_cons.mp ((hm x).mp (List.mem_cons_of_mem _ hx)) with e | hin
        · subst e; have := ha x hx; rw [bytesLt_irrefl] at this; cases this
        · exact hin
      · intro hx
        rcases List.mem_cons.mp ((hm x).mpr (List.mem_cons_of_mem _ hx)) with e | hin
        · subst e; have := hb x hx; rw [bytesLt_irrefl] at this; cases this
        · exact hin

theorem sortedStrict_appendSort {l : List Bytes} {x : Bytes} (h : sortedStrict l = true) (hx : x ∉ l) :
    sortedStrict (appendSort l x) = true := by
  unfold appendSort
  apply sortedStrict_sortBytes
  rw [List.nodup_append]
  refine ⟨sortedStrict_nodup h, by simp, ?_⟩
  intro a ha b hb
  rw [List.mem_singleton] at hb
  subst hb
  intro e; subst e; exact hx ha

/-- The combined statement used by the JOIN-side proofs. -/
theorem appendSort_spec {l : List Bytes} {x : Bytes} (h : sortedStrict l = true) (hx : x ∉ l) :
    sortedStrict (appendSort l x) = true ∧ ∀ y, y ∈ appendSort l x ↔ y = x ∨ y ∈ l :=
  ⟨sortedStrict_appendSort h hx, mem_appendSort l x⟩

/-- `appendSort` on a sorted list is plain sorted insertion. -/
theorem appendSort_eq_insertSorted {l : List Bytes} {x : Bytes} (h : sortedStrict l = true) (hx : x ∉ l) :
    appendSort l x = insertSorted x l :=
  sortedStrict_ext (sortedStrict_appendSort h hx) (sortedStrict_insertSorted h hx)
    (fun y => by rw [mem_appendSort, mem_insertSorted])

/-! ### `contains` on byte-string lists -/

theorem list_contains_iff_mem (l : List Bytes) (x : Bytes) : l.contains x = true ↔ x ∈ l := List.contains_iff_mem

theorem list_contains_eq_false_iff (l : List Bytes) (x : Bytes) : l.contains x = false ↔ x ∉ l := by
  rw [← list_contains_iff_mem]; cases l.contains x <;> simp

/-! ### `fold` and `folded` -/

theorem fold1_idem : ∀ b : UInt8, fold1 (fold1 b) = fold1 b := by decide +kernel

theorem fold_idem (s : Bytes) : fold (fold s) = fold s := by
  unfold fold
  rw [List.map_map]
  apply List.map_congr_left
  intro b _
  exact fold1_idem b

theorem fold_nil : fold [] = [] := rfl
theorem fold_eq_nil_iff (s : Bytes) : fold s = [] ↔ s = [] := by unfold fold; exact List.map_eq_nil_iff
theorem length_fold (s : Bytes) : (fold s).length = s.length := by unfold fold; exact List.length_map _

theorem folded_iff (l : List Bytes) : folded l = true ↔ ∀ x ∈ l, fold x = x := by
  unfold folded; simp

theorem folded_nil : folded [] = true := rfl

theorem folded_mem {l : List Bytes} (h : folded l = true) {x : Bytes} (hx : x ∈ l) : fold x = x :=
  (folded_iff l).mp h x hx

theorem folded_of_subset {l₁ l₂ : List Bytes} (hs : ∀ x ∈ l₁, x ∈ l₂) (h : folded l₂ = true) :
    folded l₁ = true :=
  (folded_iff l₁).mpr (fun x hx => folded_mem h (hs x hx))

theorem folded_erase {l : List Bytes} (x : Bytes) (h : folded l = true) : folded (l.erase x) = true :=
  folded_of_subset (fun _ hy => List.mem_of_mem_erase hy) h

theorem folded_sortBytes (l : List Bytes) : folded (sortBytes l) = true ↔ folded l = true := by
  rw [folded_iff, folded_iff]
  constructor
  · intro h x hx; exact h x ((mem_sortBytes x l).mpr hx)
  · intro h x hx; exact h x ((mem_sortBytes x l).mp hx)

theorem folded_cons (x : Bytes) (l : List Bytes) :
    folded (x :: l) = true ↔ fold x = x ∧ folded l = true := by
  rw [folded_iff, folded_iff]; simp

theorem folded_appendSort_iff (l : List Bytes) (x : Bytes) :
    folded (appendSort l x) = true ↔ fold x = x ∧ folded l = true := by
  rw [folded_iff, folded_iff]
  constructor
  · intro h
    exact ⟨h x ((mem_appendSort l x x).mpr (Or.inl rfl)), fun y hy => h y ((mem_appendSort l x y).mpr (Or.inr hy))⟩
  · rintro ⟨hx, hl⟩ y hy
    rcases (mem_appendSort l x y).mp hy with rfl | hy
    · exact hx
    · exact hl y hy

theorem folded_appendSort_fold {l : List Bytes} (x : Bytes) (h : folded l = true) :
    folded (appendSort l (fold x)) = true :=
  (folded_appendSort_iff l (fold x)).mpr ⟨fold_idem x, h⟩

end Girc.Proofs.InvBase
