import Girc.Base.AMap
import Girc.Base.GoLib
import Girc.Base.GoSem
import Girc.Model.Names
/-
  Model of modes.go: CModes (NewCModes, hasArg, Parse, Apply, String, HasMode, Get), Perms,
  parseUserPrefix, isValidUserPrefix, parsePrefixes, IsValidChannelMode.
-/
namespace Girc.Model
open Girc

-- `Perms` is declared (under this same name) in Girc/Base/GoSem.lean.

-- `CMode` and `CModes` are declared (under these same names) in Girc/Base/GoSem.lean, shared with the generated
-- Gen/Funcs.lean.

/-- `strings.SplitN(s, ",", 4)` padded with "" to four pieces. -/
def splitN4 (s : Bytes) : Bytes × Bytes × Bytes × Bytes :=
  match splitOnByte 0x2C s with
  | [a] => (a, [], [], [])
  | [a, b] => (a, b, [], [])
  | [a, b, c] => (a, b, c, [])
  | a :: b :: c :: rest => (a, b, c, joinWith [0x2C] rest)
  | [] => ([], [], [], [])

/-- `NewCModes`. -/
def newCModes (channelModes userPrefixes : Bytes) : CModes :=
  let (a, b, c, d) := splitN4 channelModes
  { raw := channelModes, listArgs := a, argsM := b, setArgs := c, noArgs := d, prefixes := userPrefixes, modes := [] }

/-- `hasArg`: (hasArgs, isSetting). -/
def CModes.hasArg (c : CModes) (set : Bool) (mode : Byte) : Bool × Bool :=
  if c.raw.length < 1 then (false, true)
  else if c.listArgs.contains mode then (true, false)
  else if c.argsM.contains mode then (true, true)
  else if c.setArgs.contains mode then (if set then (true, true) else (false, true))
  else if c.prefixes.contains mode then (true, false)
  else (false, true)

/-- `Parse(flags, args)`: state = (add, remaining args). -/
def CModes.parseAux (c : CModes) : Bytes → Bool → List Bytes → List CMode
  | [], _, _ => []
  | f :: rest, add, args =>
    if f = 0x2B then c.parseAux rest true args
    else if f = 0x2D then c.parseAux rest false args
    else
      let (hasArgs, isSetting) := c.hasArg add f
      match hasArgs, args with
      | true, a :: args' => ⟨add, f, isSetting, a⟩ :: c.parseAux rest add args'
      | _, _ => ⟨add, f, isSetting, []⟩ :: c.parseAux rest add args

def CModes.parse (c : CModes) (flags : Bytes) (args : List Bytes) : List CMode := c.parseAux flags true args

/-- One change of `Apply`: "+x" sets or replaces in place, "-x" removes, non-settings are skipped. -/
def applyOne (ms : List CMode) (m : CMode) : List CMode :=
  if !m.setting then ms
  else if m.add then
    (if ms.any (·.name = m.name) then ms.map (fun x => if x.name = m.name then m else x) else ms ++ [m])
  else ms.filter (·.name != m.name)

/-- `Apply`. (In-place replacement touches the first entry of that name; entries are name-unique,
    see `modesNodup`.) -/
def CModes.apply (c : CModes) (changes : List CMode) : CModes := { c with modes := changes.foldl applyOne c.modes }

/-- `String()`: "+", then `string(name)` of every stored mode (`name` is a `byte`, so Go's integer→string conversion
    `Go.strOfByte` gives the UTF-8 encoding of the code point: one byte below 0x80, two bytes `0xC2/0xC3 ‥` from 0x80 on),
    then " " ++ args of every stored mode that has an argument. -/
def CModes.toBytes (c : CModes) : Bytes :=
  (if c.modes.length > 0 then [0x2B] else []) ++ c.modes.flatMap (fun m => Go.strOfByte m.name) ++
    c.modes.flatMap (fun m => if m.args.length > 0 then SP :: m.args else [])

/-- `HasMode(mode)`: some stored mode has `string(name) == mode` (the UTF-8 encoding of the letter, see `toBytes`). -/
def CModes.hasMode (c : CModes) (mode : Bytes) : Bool := c.modes.any (fun m => Go.strOfByte m.name == mode)

/-- `Get(mode)`: (args, ok) as an option — the arguments of the first stored mode with `string(name) == mode`, `none`
    when there is no such mode or its argument is empty. -/
def CModes.get (c : CModes) (mode : Bytes) : Option Bytes :=
  match c.modes.find? (fun m => Go.strOfByte m.name == mode) with
  | some m => if m.args.isEmpty then none else some m.args
  | none => none

/-- `IsValidChannelMode`. -/
def chanModeByte (b : Byte) : Bool := !(b != 0x2C && (b < 0x41 || b > 0x5A) && (b < 0x61 || b > 0x7A))
def isValidChannelMode (raw : Bytes) : Bool := raw.length ≥ 1 && raw.all chanModeByte

/-- `isValidUserPrefix`: "(" keys ")" symbols with as many keys as symbols; every ')' toggles to the
    symbol part and is not counted. -/
def userPrefixCount : Bytes → Bool → Nat → Nat → Nat × Nat
  | [], _, k, r => (k, r)
  | b :: rest, passed, k, r =>
    if b = 0x29 then userPrefixCount rest true k r
    else if passed then userPrefixCount rest passed k (r + 1)
    else userPrefixCount rest passed (k + 1) r

def isValidUserPrefix (raw : Bytes) : Bool :=
  match raw with
  | [] => false
  | b :: rest => b = 0x28 && (let (k, r) := userPrefixCount rest false 0 0; k = r)

/-- `parsePrefixes`: (mode letters, prefix symbols). -/
def parsePrefixes (raw : Bytes) : Bytes × Bytes :=
  if !isValidUserPrefix raw then ([], [])
  else match indexOf 0x29 raw with
    | some (i + 1) => ((raw.take (i + 1)).drop 1, raw.drop (i + 2))
    | _ => ([], [])

def isPrefixSym (b : Byte) : Bool := b = 0x7E || b = 0x26 || b = 0x25 || b = 0x40 || b = 0x2B  -- ~ & % @ +

/-- `parseUserPrefix`: (modes, nick, ok). -/
def parseUserPrefix (raw : Bytes) : Bytes × Bytes × Bool :=
  let syms := raw.takeWhile isPrefixSym
  let rest := raw.dropWhile isPrefixSym
  if rest.isEmpty then ([], [], false) else (syms, rest, true)

/-- `Perms.set(prefix, add=false)`: reset, then one flag per prefix symbol. -/
def permsFromPrefix (prefix_ : Bytes) : Perms :=
  prefix_.foldl (fun (p : Perms) b =>
    if b = 0x7E then { p with owner := true }
    else if b = 0x26 then { p with admin := true }
    else if b = 0x40 then { p with op := true }
    else if b = 0x25 then { p with halfop := true }
    else if b = 0x2B then { p with voice := true }
    else p) {}

/-- `Perms.setFromMode`. -/
def Perms.setFromMode (p : Perms) (m : CMode) : Perms :=
  if m.name = 0x71 then { p with owner := m.add }        -- q
  else if m.name = 0x61 then { p with admin := m.add }   -- a
  else if m.name = 0x6F then { p with op := m.add }      -- o
  else if m.name = 0x68 then { p with halfop := m.add }  -- h
  else if m.name = 0x76 then { p with voice := m.add }   -- v
  else p

def modeDefaults : Bytes := [0x62,0x65,0x49,0x2C,0x6B,0x2C,0x6C,0x2C,0x69,0x6D,0x6E,0x70,0x73,0x74]  -- "beI,k,l,imnpst"
def defaultPrefixes : Bytes := [0x28,0x6F,0x76,0x29,0x40,0x2B]                                          -- "(ov)@+"

end Girc.Model
