import Girc.Model.Rate
/-
  Model of the path an outgoing event takes (conn.go): `Client.Send` (the limiter is consulted once per
  piece of a split event unless `Config.AllowFlood`), `Client.write` (no limiter: what `Cmd.Ping` / `Cmd.Pong`
  use), the `tx` queue and `sendLoop` (takes the oldest queued event, writes it, stamps `lastWrite`).
  Events are abstract (`α`); sizes are what `Event.Len()` returns. Time is integer nanoseconds.
-/
namespace Girc.Model

/-- The limiter state of `ircConn` plus the `tx` queue and what has reached the socket. -/
structure SendSt (α : Type) where
  writeDelay : Int := 0
  lastWrite : Int := 0
  lastDue : Int := 0         -- when the event most recently rated is due to be written (call time + returned delay)
  queue : List α := []       -- `tx`, oldest first
  wire : List α := []        -- written to the socket, oldest first

/-- The reference point elapsed time is credited from: the last socket write, but never before the previously rated
    event was due (when events are passed in faster than `sendLoop` writes them, `lastWrite` lags). -/
def SendSt.ref {α : Type} (s : SendSt α) : Int := if s.lastDue > s.lastWrite then s.lastDue else s.lastWrite

/-- `since` as `rate` computes it: `now.Sub(last)`, clamped at zero. -/
def sinceOf {α : Type} (s : SendSt α) (now : Int) : Int := if now - s.ref < 0 then 0 else now - s.ref

/-- One piece handed to `Send` at time `now`: `(new state, delay slept before queueing)`. -/
def sendPiece {α : Type} (allowFlood : Bool) (s : SendSt α) (now : Int) (e : α) (len : Nat) : SendSt α × Int :=
  if allowFlood then
    ({ s with queue := s.queue ++ [e] }, 0)            -- `delay` keeps its zero value; `rate` is not called
  else
    let r := rate s.writeDelay (sinceOf s now) len
    ({ s with writeDelay := r.1, lastDue := now + r.2, queue := s.queue ++ [e] }, r.2)

/-- `write`: straight onto the queue, limiter untouched. -/
def writeDirect {α : Type} (s : SendSt α) (e : α) : SendSt α := { s with queue := s.queue ++ [e] }

/-- `sendLoop` takes the oldest queued event, writes it at time `now` and stamps `lastWrite`. -/
def flushOne {α : Type} (s : SendSt α) (now : Int) : SendSt α :=
  match s.queue with
  | [] => s
  | e :: rest => { s with queue := rest, wire := s.wire ++ [e], lastWrite := now }

/-- What can happen to the connection, in the order it happens. -/
inductive SendOp (α : Type) where
  | send (now : Int) (e : α) (len : Nat)     -- one piece through `Send`
  | write (e : α)                             -- `Cmd.Ping` / `Cmd.Pong` / internal replies through `write`
  | flush (now : Int)                         -- `sendLoop` writes the oldest queued event

def stepSend {α : Type} (allowFlood : Bool) (s : SendSt α) : SendOp α → SendSt α × Int
  | .send now e len => sendPiece allowFlood s now e len
  | .write e => (writeDirect s e, 0)
  | .flush now => (flushOne s now, 0)

/-- Runs a history; returns the final state and the delay of every op (0 for `write`/`flush`). -/
def runSend {α : Type} (allowFlood : Bool) : SendSt α → List (SendOp α) → SendSt α × List Int
  | s, [] => (s, [])
  | s, op :: rest =>
    let r := stepSend allowFlood s op
    let rr := runSend allowFlood r.1 rest
    (rr.1, r.2 :: rr.2)

/-- Total cost of what a history passes through `Send`. -/
def sentCost {α : Type} : List (SendOp α) → Int
  | [] => 0
  | .send _ _ len :: rest => cost len + sentCost rest
  | _ :: rest => sentCost rest

/-- The clock discipline of a history, whatever `sendLoop` does: a `Send` happens no earlier than the last socket write and
    no earlier than the previously rated event was due (the calling goroutine sleeps the returned delay before it can call
    again); socket writes are stamped with a clock that does not run backwards. Nothing is assumed about HOW LATE the writes
    happen. -/
def Disciplined {α : Type} : SendSt α → List (SendOp α) → Prop
  | _, [] => True
  | s, .send now e len :: rest => s.ref ≤ now ∧ Disciplined (sendPiece false s now e len).1 rest
  | s, .write e :: rest => Disciplined (writeDirect s e) rest
  | s, .flush now :: rest => s.lastWrite ≤ now ∧ Disciplined (flushOne s now) rest

/-- The events a history hands over, in call order. -/
def handedOver {α : Type} : List (SendOp α) → List α
  | [] => []
  | .send _ e _ :: rest => e :: handedOver rest
  | .write e :: rest => e :: handedOver rest
  | .flush _ :: rest => handedOver rest

end Girc.Model
