import Girc.Model.Format
/-
  C20 specification: texts built from brace-free literal pieces and known tokens.
-/
namespace Girc.Spec
open Girc Girc.Model

inductive Item where
  | lit (s : Bytes)            -- brace-free literal piece
  | name (n : Bytes)           -- `{n}`: a known colour or code name, in any letter case
  | pair (fg bg : Bytes)       -- `{fg,bg}`: two known colour names, in any letter case
  deriving Repr, DecidableEq

def braceFree (s : Bytes) : Bool := s.all (fun b => b != LBRACE && b != RBRACE)

def isColorName (n : Bytes) : Bool := (colorOf (toLowerAscii n)).isSome
def isCodeName (n : Bytes) : Bool := (codeOf (toLowerAscii n)).isSome

def lettersOnly (n : Bytes) : Bool := n.all (fun b => (0x41 ≤ b && b ≤ 0x5A) || (0x61 ≤ b && b ≤ 0x7A))

def wfItem : Item → Bool
  | .lit s => braceFree s
  | .name n => lettersOnly n && (isColorName n || isCodeName n)
  | .pair fg bg => lettersOnly fg && lettersOnly bg && isColorName fg && isColorName bg

/-- The source text. -/
def srcItem : Item → Bytes
  | .lit s => s
  | .name n => token n
  | .pair fg bg => LBRACE :: fg ++ COMMA :: bg ++ [RBRACE]

def src (items : List Item) : Bytes := items.flatMap srcItem

/-- The documented control sequence of a token: `\x03` + two digits for a colour (+ `,` + two digits
    for a pair), the code byte for a code name. -/
def outItem : Item → Bytes
  | .lit s => s
  | .name n =>
    match colorOf (toLowerAscii n) with
    | some c => 0x03 :: twoDigits c
    | none => (codeOf (toLowerAscii n)).getD []
  | .pair fg bg =>
    0x03 :: twoDigits ((colorOf (toLowerAscii fg)).getD 0) ++ COMMA :: twoDigits ((colorOf (toLowerAscii bg)).getD 0)

def out (items : List Item) : Bytes := items.flatMap outItem

/-- A token TrimFmt removes: `{name}` with `name` spelled exactly as in the tables (lower case). -/
def isLowerToken : Item → Bool
  | .name n => tokenNames.contains n
  | _ => false

def literals (items : List Item) : Bytes :=
  items.flatMap fun | .lit s => s | _ => []

def hasCodeByte (s : Bytes) : Bool := s.any (fun b => codeBytes.contains b)

def literalsCodeFree (items : List Item) : Bool :=
  items.all fun | .lit s => !hasCodeByte s | _ => true

/-- After every token whose output starts with `\x03` (colours, pairs, `{c}`/`{clear}`), the next
    output byte is not a digit or a comma. -/
def noDigitAfterColor : List Item → Bool
  | [] => true
  | it :: rest =>
    (match it with
     | .lit _ => true
     | _ => (outItem it).head? != some 0x03 ||
            (match (out rest).head? with
             | some b => !(isDigitB b || b = COMMA)
             | none => true)) && noDigitAfterColor rest

end Girc.Spec
