#!/bin/bash
# Mutation sanity for the Go->Lean translator: apply one textual mutation to a scratch copy of the Go
# sources, regenerate lean/Girc/Gen/Funcs.lean from it, and check that `lake build Girc.Props.Tie` fails
# (or, with expect=pass, still succeeds).  Only Funcs.lean is touched, and it is restored afterwards.
#   usage: mut_translate.sh <name> <file.go> <perl-substitution> [expect=fail|pass]
set -u
export GOFLAGS=-mod=mod GOPROXY=off GOSUMDB=off GOTOOLCHAIN=local
ROOT="$(cd "$(dirname "$0")/.." && pwd)"
# Clean export of the Go sources (never the live /repo working tree, which other jobs may be patching):
#   mkdir -p repo_clean && git -C /repo archive HEAD | tar -x -C repo_clean
REPO="${REPO:-$ROOT/repo_clean}"
name="$1"; file="$2"; subst="$3"; expect="${4:-fail}"
scratch="$(mktemp -d /tmp/mut_tr_XXXXXX)"
rsync -a --exclude .git "$REPO/" "$scratch/"
before="$(sha256sum "$scratch/$file" | cut -d' ' -f1)"
perl -0pi -e "$subst" "$scratch/$file"
after="$(sha256sum "$scratch/$file" | cut -d' ' -f1)"
if [ "$before" = "$after" ]; then echo "MUT $name: substitution did not apply"; rm -rf "$scratch"; exit 2; fi
( cd "$ROOT/tools/extract" && go build -o "$ROOT/tools/extract/extract.bin" . ) || exit 3
cp "$ROOT/lean/Girc/Gen/Funcs.lean" "$scratch/Funcs.orig"
mkdir -p "$scratch/gen"
"$ROOT/tools/extract/extract.bin" -repo "$scratch" -out "$scratch/gen/Facts.lean" 2> "$scratch/extract.err"
cmp -s "$scratch/gen/Funcs.lean" "$ROOT/lean/Girc/Gen/Funcs.lean" || cp "$scratch/gen/Funcs.lean" "$ROOT/lean/Girc/Gen/Funcs.lean"
if cmp -s "$ROOT/lean/Girc/Gen/Funcs.lean" "$scratch/Funcs.orig"; then changed=no; else changed=yes; fi
( cd "$ROOT/lean" && lake build Girc.Props.Tie > "$scratch/build.log" 2>&1 ); rc=$?
if [ $rc -eq 0 ]; then built=pass; else built=fail; fi
first="$(grep -m1 -E '^error: Girc' "$scratch/build.log" | cut -c1-160)"
# restore
cp "$scratch/Funcs.orig" "$ROOT/lean/Girc/Gen/Funcs.lean"
verdict=BAD; [ "$built" = "$expect" ] && verdict=OK
echo "MUT $name: Funcs.lean changed=$changed, Tie build=$built (expected $expect) => $verdict ${first}"
rm -rf "$scratch"
