import Girc.Model.Ctcp
import Girc.Model.Sasl
import Girc.Model.Rate
import Girc.Model.CmdHandler
import Girc.Spec.NameSpec
/-
  Proof obligations for the small pure codecs (C09 chunking/base64, C14 codec, C16 arithmetic, C18).
-/
namespace Girc.Proofs.Pure
open Girc Girc.Model

/-! ## C14 codec -/

def upperOrDigit (cmd : Bytes) : Bool := cmd.all Spec.isUpperOrDigit

theorem ctcp_decode_encode (c tgt cmd text : Bytes) (src : Option Source) (tags : Option Tags)
    (hc : c = PRIVMSG ∨ c = NOTICE) (hne : cmd ≠ []) (hcmd : upperOrDigit cmd = true) :
    decodeCTCP { tags := tags, source := src, command := c, params := [tgt, encodeCTCPRaw cmd text] } =
      some ⟨src, cmd, text, c == NOTICE⟩ := by
  sorry

/-- Anything not delimited by 0x01 on both ends is not CTCP. -/
theorem ctcp_not_delimited (e : Event) (tgt p : Bytes) (hp : e.params = [tgt, p])
    (h : p.head? ≠ some ctcpDelim ∨ p.getLast? ≠ some ctcpDelim) : decodeCTCP e = none := by
  sorry

/-- A tag (the bytes between the first delimiter and the first SPACE / the closing delimiter) containing
    a byte outside A–Z/0–9 is not CTCP. -/
theorem ctcp_bad_tag (e : Event) (tgt tag rest : Bytes) (hsp : SP ∉ tag)
    (hp : e.params = [tgt, ctcpDelim :: tag ++ rest ++ [ctcpDelim]]) (hrest : rest = [] ∨ rest.head? = some SP)
    (hbad : ∃ b ∈ tag, Spec.isUpperOrDigit b = false) : decodeCTCP e = none := by
  sorry

/-- Other commands and other parameter counts are never CTCP. -/
theorem ctcp_wrong_shape (e : Event) (h : (e.command ≠ PRIVMSG ∧ e.command ≠ NOTICE) ∨ e.params.length ≠ 2) :
    decodeCTCP e = none := by
  sorry

/-! ## C09 chunking and base64 -/

theorem b64_roundtrip (x : Bytes) : b64Decode (b64Encode x) = some x := by
  sorry

/-- The payload chunks: everything, minus the lone "+" terminator when the length is a multiple of 400. -/
def payloads (auth : Bytes) : List Bytes :=
  if auth.length % 400 = 0 then (saslChunks auth).dropLast else saslChunks auth

theorem chunks_exact (auth : Bytes) (hne : auth ≠ []) :
    (payloads auth).flatten = auth ∧
    (∀ c ∈ payloads auth, 1 ≤ c.length ∧ c.length ≤ 400) ∧
    (∀ c ∈ (payloads auth).dropLast, c.length = 400) ∧
    (auth.length % 400 = 0 → (saslChunks auth).getLast? = some PLUS ∧ ((payloads auth).getLast?.map List.length) = some 400) ∧
    (auth.length % 400 ≠ 0 → ((saslChunks auth).getLast?.map List.length) = some (auth.length % 400)) := by
  sorry

/-! ## C16 arithmetic -/

theorem cost_exact (n : Nat) : cost n = second + (n : Int) * 10000000 := by
  sorry

/-- The delay is either nothing or exactly the event's cost, and it is the cost exactly when the
    outstanding allowance is exceeded. -/
theorem delay_exact (wd since : Int) (n : Nat) :
    ((rate wd since n).2 = 0 ∨ (rate wd since n).2 = cost n) ∧
    ((rate wd since n).2 = cost n ↔ (rate wd since n).1 > 8 * second) ∧ 0 ≤ (rate wd since n).1 := by
  sorry

/-- One call of a serial sender: observed idle time `since ≥ 0`, event size, and scheduling slack
    `extra ≥ 0` (the event is written at least `delay` after the call). -/
structure Step where
  since : Int
  chars : Nat
  extra : Int

/-- Runs a serial trace: returns (final writeDelay, wall-clock elapsed between the write before the
    first call and the last write, total cost of the events). -/
def runTrace : Int → List Step → Int × Int × Int
  | wd, [] => (wd, 0, 0)
  | wd, s :: rest =>
    let (wd', d) := rate wd s.since s.chars
    let (wdf, el, tot) := runTrace wd' rest
    (wdf, s.since + d + s.extra + el, cost s.chars + tot)

/-- Leaky bucket: over ANY window of a serial trace, the total cost written is at most the 8 s
    allowance plus the wall-clock time the window took. -/
theorem leaky_bucket (wd : Int) (tr : List Step) (hwd : 0 ≤ wd)
    (h : ∀ s ∈ tr, 0 ≤ s.since ∧ 0 ≤ s.extra) :
    (runTrace wd tr).2.2 ≤ 8 * second + (runTrace wd tr).2.1 := by
  sorry

/-- Hence at most `8 + T` events are written in any window of `T` seconds. -/
theorem message_rate (wd : Int) (tr : List Step) (hwd : 0 ≤ wd)
    (h : ∀ s ∈ tr, 0 ≤ s.since ∧ 0 ≤ s.extra) :
    (tr.length : Int) * second ≤ 8 * second + (runTrace wd tr).2.1 := by
  sorry

/-! ## C18 -/

/-- The regexp match, characterised: the text is prefix ++ name [++ " " ++ rest]. -/
theorem matchCmd_iff (pfx text name rest : Bytes) :
    matchCmd pfx text = some (name, rest) ↔
      validCmdName name = true ∧ LF ∉ rest ∧
      (text = pfx ++ name ∧ rest = [] ∨ text = pfx ++ name ++ SP :: rest) := by
  sorry

theorem execute_invoke_iff (pfx : Bytes) (tbl : CmdTable) (e : Event) (id : Nat) (args : List Bytes) (raw : Bytes) :
    cmdExecute pfx tbl e = .invoke id args raw ↔
      e.source.isSome ∧ e.command = PRIVMSG ∧
      ∃ name c, matchCmd pfx (e.params.getLastD []) = some (name, raw) ∧ name ≠ HELP ∧
        AMap.get? tbl name = some c ∧ c.id = id ∧
        args = (if raw.isEmpty then [] else splitOnByte SP raw) ∧ c.minArgs ≤ (args.length : Int) := by
  sorry

theorem execute_usage_iff (pfx : Bytes) (tbl : CmdTable) (e : Event) (name : Bytes) :
    cmdExecute pfx tbl e = .usage name ↔
      e.source.isSome ∧ e.command = PRIVMSG ∧
      ∃ raw c, matchCmd pfx (e.params.getLastD []) = some (name, raw) ∧ name ≠ HELP ∧
        AMap.get? tbl name = some c ∧
        (((if raw.isEmpty then [] else splitOnByte SP raw).length : Int) < c.minArgs) := by
  sorry

/-- No other message invokes anything. -/
theorem execute_nothing_else (pfx : Bytes) (tbl : CmdTable) (e : Event)
    (h : e.source = none ∨ e.command ≠ PRIVMSG ∨ matchCmd pfx (e.params.getLastD []) = none ∨
         (∃ name raw, matchCmd pfx (e.params.getLastD []) = some (name, raw) ∧ name ≠ HELP ∧ AMap.get? tbl name = none)) :
    cmdExecute pfx tbl e = .none := by
  sorry

/-- Registration is rejected exactly for invalid or duplicate names/aliases. -/
theorem add_result (tbl : CmdTable) (cmd : Command) :
    let name := toLowerAscii cmd.name
    let aliases := cmd.aliases.map toLowerAscii
    ((cmdAdd tbl cmd).2 = .invalidName ↔ (validCmdName name = false ∨ ∃ a ∈ aliases, validCmdName a = false)) ∧
    ((cmdAdd tbl cmd).2 = .duplicateName → AMap.contains tbl name = true ∧ (cmdAdd tbl cmd).1 = tbl) ∧
    ((cmdAdd tbl cmd).2 = .ok → ∀ n ∈ name :: aliases, ∃ c, AMap.get? (cmdAdd tbl cmd).1 n = some c ∧ c.id = cmd.id) := by
  sorry

end Girc.Proofs.Pure
