import Girc.Proofs.TransModes
import Girc.Proofs.TransSource
/-
  Translator equivalence, modes.go (second part): parseUserPrefix, (*CModes).hasArg.
-/
set_option linter.unusedSimpArgs false
namespace Girc.Proofs.Trans
open Girc Girc.Model Girc.Go Girc.Gen

/-! ### parseUserPrefix -/

theorem prefixSym_cond : ∀ c : UInt8,
    (strOfByte c == Fn.OwnerPrefix || strOfByte c == Fn.AdminPrefix || strOfByte c == Fn.HalfOperatorPrefix ||
      strOfByte c == Fn.OperatorPrefix || strOfByte c == Fn.VoicePrefix) = isPrefixSym c := by
  decide +kernel

theorem prefixSym_str : ∀ c : UInt8, isPrefixSym c = true → strOfByte c = [c] := by
  decide +kernel

theorem parseUserPrefix_loop1_eq (raw : Bytes) : ∀ (fuel n : Nat) (modes : Bytes),
    n ≤ raw.length → raw.length - n < fuel →
    Fn.parseUserPrefix_loop1 raw fuel modes (n : Int) = .ok
      (if ((raw.drop n).dropWhile isPrefixSym).isEmpty then .done (modes ++ (raw.drop n).takeWhile isPrefixSym)
       else .ret (modes ++ (raw.drop n).takeWhile isPrefixSym, (raw.drop n).dropWhile isPrefixSym, true))
  | 0, _, _, _, h => by omega
  | fuel + 1, n, modes, hn, hf => by
    unfold Fn.parseUserPrefix_loop1
    by_cases hlt : n < raw.length
    · obtain ⟨c, hd, hat, hget⟩ := atI_step raw n hlt
      have hc : decide ((n : Int) < len raw) = true := by dec_tac
      have e1 : ((n : Int) + 1) = ((n + 1 : Nat) : Int) := by omega
      simp only [hc, hat, bind, Except.bind, pure, Except.pure, Bool.not_true, Bool.false_eq_true, if_false,
        prefixSym_cond, e1]
      rw [hd]
      cases hs : isPrefixSym c with
      | true =>
        simp only [if_true, List.dropWhile_cons, List.takeWhile_cons, hs]
        rw [parseUserPrefix_loop1_eq raw fuel (n + 1) _ (by omega) (by omega), prefixSym_str c hs]
        simp
      | false =>
        have s1 := sliceI_int_end raw (n : Int) n rfl (by omega)
        simp only [Bool.false_eq_true, if_false, List.dropWhile_cons, List.takeWhile_cons, hs, s1, hd]
        simp
    · have hc : decide ((n : Int) < len raw) = false := by dec_tac
      have : raw.drop n = [] := by simp; omega
      simp [hc, this, pure, Except.pure]

/-- What the Go code computes: when the whole input consists of prefix symbols (or is empty) the named result
    `modes` has already been accumulated and IS returned next to `success = false`; the hand-written model
    `parseUserPrefix` returns `([], [], false)` there (see `parseUserPrefix_agrees`). -/
theorem parseUserPrefix_go (raw : Bytes) :
    Fn.parseUserPrefix raw = .ok
      (if (raw.dropWhile isPrefixSym).isEmpty then (raw.takeWhile isPrefixSym, [], false)
       else (raw.takeWhile isPrefixSym, raw.dropWhile isPrefixSym, true)) := by
  unfold Fn.parseUserPrefix
  have hl := parseUserPrefix_loop1_eq raw (fuelTo 0 (len raw)) 0 [] (by omega) (by fuel_tac)
  simp only [Int.natCast_zero, List.drop_zero, List.nil_append] at hl
  simp only [hl, bind, Except.bind, pure, Except.pure]
  cases ((raw.dropWhile isPrefixSym).isEmpty) <;> rfl

/-- Generated code and model agree whenever there is a nick part (`success = true`), and always on `nick` and
    `success`. -/
theorem parseUserPrefix_agrees (raw : Bytes) (h : (raw.dropWhile isPrefixSym).isEmpty = false) :
    Fn.parseUserPrefix raw = .ok (parseUserPrefix raw) := by
  rw [parseUserPrefix_go]; unfold parseUserPrefix; simp [h]

theorem parseUserPrefix_nick_success (raw : Bytes) :
    (Fn.parseUserPrefix raw).map (fun r => (r.2.1, r.2.2)) =
      .ok ((parseUserPrefix raw).2.1, (parseUserPrefix raw).2.2) := by
  rw [parseUserPrefix_go]; unfold parseUserPrefix
  cases h : (raw.dropWhile isPrefixSym).isEmpty <;> simp [h, Except.map]

/-! ### (*CModes).hasArg -/

theorem indexByteI_gt (s : Bytes) (b : Byte) : decide (indexByteI s b > -1) = s.contains b := by
  unfold indexByteI
  induction s with
  | nil => simp [indexOf]
  | cons x xs ih =>
    unfold indexOf
    by_cases h : x = b
    · subst h; simp
    · have h' : (x == b) = false := by simp [h]
      have hb : ¬ (b = x) := fun e => h e.symm
      cases hi : indexOf b xs with
      | none => simp [hi, h, hb] at ih ⊢; exact ih
      | some n =>
        simp [hi, h, hb] at ih ⊢
        have : (-1 : Int) < (n : Int) + 1 := by omega
        simp [this]
        exact ih.mp (by omega)

theorem CModes_hasArg_eq (c : CModes) (set : Bool) (mode : Byte) :
    Fn.CModes_hasArg (some c) set mode = .ok (c.hasArg set mode) := by
  unfold Fn.CModes_hasArg CModes.hasArg
  have c0 : decide (len c.raw < 1) = decide (c.raw.length < 1) := by decc_tac
  simp only [deref_some, bind, Except.bind, pure, Except.pure, indexByteI_gt, c0]
  by_cases h0 : c.raw.length < 1
  · simp [h0]
  · simp only [h0, decide_false, Bool.false_eq_true, if_false]
    cases c.listArgs.contains mode <;> cases c.argsM.contains mode <;> cases c.setArgs.contains mode <;>
      cases c.prefixes.contains mode <;> cases set <;> rfl

theorem CModes_hasArg_nil (set : Bool) (mode : Byte) : Fn.CModes_hasArg none set mode = .error .nilDeref := rfl

end Girc.Proofs.Trans
