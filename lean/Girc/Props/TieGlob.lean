import Girc.Proofs.TransGlob
/-
  Tie (TieGlob): the function bodies regenerated from the Go source on every run (Girc/Gen/Funcs.lean, written by
  tools/extract/translate.go) equal the hand-written models the property theorems of C19 are about, for ALL inputs.
  Only restatements of theorems proved in Girc/Proofs/Trans*.lean, each with a non-vacuity example that evaluates the
  generated function on a literal. An edit of the Go function changes Funcs.lean and the equivalence stops building.
-/
namespace Girc.Props.TieGlob
open Girc Girc.Model Girc.Gen

/-! ### format.go -/

theorem tie_Glob : ∀ input pat : Bytes, Fn.Glob input pat = .ok (glob input pat) := Proofs.Trans.Glob_eq
-- Glob("abcXdefYghi", "abc*def*ghi"), Glob("abcdef", "*x*")
example : Fn.Glob [0x61, 0x62, 0x63, 0x58, 0x64, 0x65, 0x66, 0x59, 0x67, 0x68, 0x69]
    [0x61, 0x62, 0x63, 0x2A, 0x64, 0x65, 0x66, 0x2A, 0x67, 0x68, 0x69] = .ok true := by rfl
example : Fn.Glob [0x61, 0x62, 0x63, 0x64, 0x65, 0x66] [0x2A, 0x78, 0x2A] = .ok false := by rfl

end Girc.Props.TieGlob
